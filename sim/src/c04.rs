//! C04 — packets are read from a byte stream exactly at APDU boundaries.
//! The reader is the real `PacketTransport::read_packet::<RawFrame>` where
//! `RawFrame` copies the slice the transport considers one packet; the
//! writer is the real `write_packet`. Schedules: every chunk family; faults:
//! end of stream at every byte position.
use crate::conn::{sim_conn, ChunkMode, CloseKind, Ev, Log, Sched, SharedLog, TermIo, Terminal};
use crate::exchange::hexser;
use crate::exec::{self, Outcome};
use crate::framework::{guarded, Check, Family, RunOut, Tier};
use crate::refcodec as rc;
use crate::rng::{Hasher64, Rng};
use serde::{Deserialize, Serialize};
use std::sync::{Arc, Mutex};
use zvt::io::PacketTransport;
use zvt::{packets, ZVTResult, ZvtParser};

pub struct C04;

/// Observes exactly which bytes the transport hands to a packet parser.
#[derive(Debug)]
pub struct RawFrame(pub Vec<u8>);

/// Class byte of frames the harness parser refuses (as a reply parser refuses a packet outside its
/// set): the transport must have consumed exactly that packet, and go on framing correctly.
pub const REJECTED_CLASS: u8 = 0xee;

impl ZvtParser for RawFrame {
    fn zvt_parse(bytes: &[u8]) -> ZVTResult<Self> {
        if bytes.first() == Some(&REJECTED_CLASS) {
            return Err(zvt::ZVTError::WrongTag(zvt::Tag(REJECTED_CLASS as u16)));
        }
        Ok(RawFrame(bytes.to_vec()))
    }
}

#[derive(Clone, Debug, PartialEq, Serialize, Deserialize)]
pub struct FrameSpec {
    pub class: u8,
    pub instr: u8,
    pub len: u32,
    /// Body bytes are `fill + index` (mod 251) unless `via_writer`.
    pub fill: u8,
    /// Produce the frame with the real writer (PrintLine / Ack through write_packet).
    pub via_writer: bool,
}

impl FrameSpec {
    fn body(&self) -> Vec<u8> {
        if self.via_writer {
            // PrintLine { attribute, text }: body = attribute + text
            if self.len == 0 {
                return vec![];
            }
            let mut b = vec![self.fill];
            b.extend((1..self.len).map(|i| b'a' + ((i + self.fill as u32) % 26) as u8));
            b
        } else {
            (0..self.len).map(|i| ((self.fill as u32 + i) % 251) as u8).collect()
        }
    }
    fn cf(&self) -> (u8, u8) {
        if self.via_writer {
            if self.len == 0 {
                (0x80, 0x00)
            } else {
                (0x06, 0xd1)
            }
        } else {
            (self.class, self.instr)
        }
    }
    fn reference(&self) -> Vec<u8> {
        rc::apdu(self.cf(), &self.body())
    }
}

#[derive(Clone, Debug, PartialEq, Serialize, Deserialize)]
pub struct C04Plan {
    pub frames: Vec<FrameSpec>,
    pub sched: Sched,
    /// Schedule of the writer connection (short writes, Pending).
    pub wsched: Sched,
    pub cut: Option<(u32, CloseKind)>,
    #[serde(with = "hexser")]
    pub sentinel: Vec<u8>,
    pub label: String,
    /// Stalls of the peer: at byte offset `.0` of the stream nothing arrives for `.1` virtual
    /// milliseconds (offsets ascending). The reader has no timer of its own, so a stall must
    /// change nothing - unless a change gives it one.
    #[serde(default)]
    pub stalls: Vec<(u32, u32)>,
    /// The stream starts with an acknowledgement `80 00` carrying this many data bytes, which is
    /// read by the real `write_packet_with_ack` before the packets are read.
    #[serde(default)]
    pub ack_first: Option<u32>,
    /// Transient read errors (0 = EINTR, 1 = EAGAIN, 2 = ETIMEDOUT) when the read cursor stands at
    /// this offset of the stream: the read of that packet may fail - or be retried correctly -,
    /// a wrong packet must never come out.
    #[serde(default)]
    pub read_errs: Vec<(u32, u8)>,
}

/// Terminal that has everything queued from the start.
struct Preloaded {
    data: Vec<u8>,
    cut: Option<(u32, CloseKind)>,
    done: bool,
    stalls: Vec<(u32, u32)>,
}

impl Preloaded {
    fn preload(&mut self, io: &mut TermIo<'_>) {
        if self.done {
            return;
        }
        self.done = true;
        let end = match self.cut {
            Some((at, _)) => (at as usize).min(self.data.len()),
            None => self.data.len(),
        };
        let mut stalls = self.stalls.clone();
        stalls.sort();
        let (mut prev, mut gap) = (0usize, 0u64);
        for (off, ms) in stalls {
            let off = (off as usize).min(end);
            if off > prev {
                io.release_after(gap, &self.data[prev..off]);
                prev = off;
                gap = 0;
            }
            gap += ms as u64;
        }
        if end > prev {
            io.release_after(gap, &self.data[prev..end]);
        }
        if let Some((_, kind)) = self.cut {
            io.close(kind);
        }
    }
}

impl Terminal for Preloaded {
    fn on_bytes(&mut self, _io: &mut TermIo<'_>) {}
    fn on_idle(&mut self, _io: &mut TermIo<'_>) -> bool {
        false
    }
}

struct Sink;
impl Terminal for Sink {
    fn on_bytes(&mut self, io: &mut TermIo<'_>) {
        io.inbox.clear();
    }
}

async fn write_one(pt: &mut PacketTransport<crate::conn::SimConn>, f: &FrameSpec) -> anyhow::Result<()> {
    if f.len == 0 {
        pt.write_packet(&packets::Ack {}).await
    } else {
        let body = f.body();
        let text = String::from_utf8(body[1..].to_vec()).unwrap();
        // (no exhaustive struct literal: the value is decoded from a minimal frame and its known fields assigned)
        use zvt::ZvtSerializer;
        let mut line = match packets::PrintLine::zvt_deserialize(&[0x06, 0xd1, 0x02, 0x00, 0x41]) {
            Ok((l, _)) => l,
            Err(e) => {
                eprintln!("HARNESS ERROR: the library does not decode a minimal print line: {e:?}");
                std::process::exit(2)
            }
        };
        line.attribute = body[0];
        line.text = text;
        pt.write_packet(&line).await
    }
}

fn run_plan(plan: &C04Plan, want_trace: bool) -> RunOut {
    let mut out = RunOut::new();
    let log: SharedLog = Arc::new(Mutex::new(Log::default()));
    let sig = plan.label.clone();

    // 1. frames through the real writer
    let mut stream: Vec<u8> = vec![];
    let mut ends: Vec<u64> = vec![];
    let mut refs: Vec<Vec<u8>> = vec![];
    for f in &plan.frames {
        let reference = f.reference();
        if f.via_writer {
            let (conn, h) = sim_conn(1, plan.wsched.clone(), Box::new(Sink), log.clone());
            let mut pt = PacketTransport { source: conn };
            let r = guarded(|| {
                let (o, _) = exec::run(write_one(&mut pt, f), || false, 2_000_000);
                match o {
                    Outcome::Done(r) => r.map_err(|e| e.to_string()),
                    Outcome::Stuck => Err("writer stuck".to_string()),
                    Outcome::PollLimit => Err("writer exceeded poll limit".to_string()),
                }
            });
            out.stats.add_fired(&h.fired());
            match r {
                Err((loc, msg)) => {
                    out.fail("panic", format!("writer@{}", crate::framework::panic_sig(&loc, &msg)), format!("write_packet panicked at {loc}: {msg}"));
                    return finish(out, &log, plan, want_trace);
                }
                Ok(Err(e)) => {
                    out.fail("writer_error", sig.clone(), format!("write_packet failed on a healthy connection: {e}"));
                    return finish(out, &log, plan, want_trace);
                }
                Ok(Ok(())) => {}
            }
            let written = h.written();
            if written != reference {
                out.fail(
                    "writer_header",
                    format!("{sig}/len{}", if f.len < 255 { "<255" } else { ">=255" }),
                    format!(
                        "write_packet emitted {} for body length {}, reference framing is {}",
                        crate::conn::hex(&written[..written.len().min(8)]),
                        f.len,
                        crate::conn::hex(&reference[..reference.len().min(8)])
                    ),
                );
            }
            stream.extend_from_slice(&written);
        } else {
            stream.extend_from_slice(&reference);
        }
        ends.push(stream.len() as u64);
        refs.push(reference);
    }
    // an acknowledgement (with data) in front, consumed by write_packet_with_ack
    let ack_len = match plan.ack_first.filter(|_| plan.cut.is_none()) {
        Some(n) => {
            let body: Vec<u8> = (0..n).map(|i| (i % 253) as u8).collect();
            let f = rc::apdu((0x80, 0x00), &body);
            let l = f.len();
            let mut s2 = f;
            s2.extend_from_slice(&stream);
            stream = s2;
            for e in ends.iter_mut() {
                *e += l as u64;
            }
            l as u64
        }
        None => 0,
    };
    let n_payload = refs.len();
    if !plan.sentinel.is_empty() {
        stream.extend_from_slice(&plan.sentinel);
        ends.push(stream.len() as u64);
        refs.push(plan.sentinel.clone());
    }
    // when the writer's output differs from the reference the reader is judged
    // against what was actually put on the wire only if it still frames; keep simple:
    if !out.violations.is_empty() {
        return finish(out, &log, plan, want_trace);
    }

    // 2. read everything back with the real reader
    let avail = plan.cut.map(|c| (c.0 as usize).min(stream.len())).unwrap_or(stream.len());
    let expect_ok = ends.iter().filter(|e| **e as usize <= avail).count();
    let mut term = Preloaded {
        data: stream.clone(),
        cut: plan.cut,
        done: false,
        stalls: plan.stalls.clone(),
    };
    let (conn, h) = sim_conn(0, plan.sched.clone(), Box::new(Sink), log.clone());
    h.set_read_errors(
        plan.read_errs
            .iter()
            .map(|(off, k)| {
                (
                    *off as u64,
                    match k {
                        0 => std::io::ErrorKind::Interrupted,
                        1 => std::io::ErrorKind::WouldBlock,
                        _ => std::io::ErrorKind::TimedOut,
                    },
                )
            })
            .collect(),
    );
    if !plan.read_errs.is_empty() {
        out.stats.hit("fault.transient_read_error_planned");
    }
    let mut pt = PacketTransport { source: conn };
    #[derive(Default)]
    struct Got {
        frames: Vec<(Result<Vec<u8>, String>, u64)>,
    }
    let got = Arc::new(Mutex::new(Got::default()));
    let calls = if plan.cut.is_some() { expect_ok + 2 } else { refs.len() };
    // frames the harness parser refuses
    let rejected: Vec<bool> = refs.iter().map(|r| r.first() == Some(&REJECTED_CLASS)).collect();
    if rejected.iter().any(|r| *r) {
        out.stats.hit("probe.packet_refused_by_parser");
    }
    let rejected_for_judge = rejected.clone();
    let ack_first = plan.ack_first.is_some() && plan.cut.is_none();
    let ack_seen: Arc<Mutex<Option<(bool, u64)>>> = Arc::new(Mutex::new(None));
    let ack_seen2 = ack_seen.clone();
    let stream_len = stream.len();
    let res = {
        let got = got.clone();
        let h2 = h.clone();
        let h3 = h.clone();
        let ack_seen = ack_seen2;
        guarded(move || {
            let fut = async {
                // inside the runtime: delayed releases are measured on the simulated clock
                h3.with_io(|io| term.preload(io));
                if ack_first {
                    let r = pt.write_packet_with_ack(&packets::Ack {}).await;
                    *ack_seen.lock().unwrap() = Some((r.is_ok(), h2.cursor()));
                }
                for k in 0..calls {
                    let r = pt.read_packet::<RawFrame>().await;
                    let cur = h2.cursor();
                    let is_err = r.is_err() && !rejected.get(k).copied().unwrap_or(false);
                    got.lock()
                        .unwrap()
                        .frames
                        .push((r.map(|f| f.0).map_err(|e| format!("{:#}", e)), cur));
                    if is_err && got.lock().unwrap().frames.iter().filter(|f| f.0.is_err()).count() >= 2 {
                        break;
                    }
                }
            };
            let (o, polls) = exec::run(fut, || false, 2_000_000 + 8 * stream_len as u64);
            (
                match o {
                    Outcome::Done(()) => "done",
                    Outcome::Stuck => "stuck",
                    Outcome::PollLimit => "poll_limit",
                },
                polls,
            )
        })
    };
    out.stats.add_fired(&h.fired());
    let outcome = match res {
        Err((loc, msg)) => {
            out.fail("panic", format!("reader@{}", crate::framework::panic_sig(&loc, &msg)), format!("read_packet panicked at {loc}: {msg}"));
            return finish(out, &log, plan, want_trace);
        }
        Ok((o, _)) => o,
    };
    let got = got.lock().unwrap();
    // (see below: a reader may give a packet up during a long stall; what it does with the rest of
    // the stream afterwards - mis-framed by then - is not judged, a dead end included)
    // (a transient read error is judged like a long stall at its offset: the packet may be given up there)
    // (accumulated silence of 200 ms - the specification's inter-character time-out - or more)
    let mut sorted_stalls: Vec<(u32, u32)> = plan.stalls.clone();
    sorted_stalls.sort();
    let mut cum = 0u64;
    let mut stall_points: Vec<u64> = vec![];
    for (off, ms) in &sorted_stalls {
        cum += *ms as u64;
        if cum >= crate::exchange::STALL_MS {
            stall_points.push(*off as u64);
        }
    }
    let early_long_stall: Option<u64> = stall_points.iter().copied().chain(plan.read_errs.iter().map(|(off, _)| *off as u64)).min();
    let gave_up_early = match early_long_stall {
        Some(s) => {
            got.frames.iter().enumerate().any(|(i, f)| f.0.is_err() && ends.get(i).map(|e| *e > s).unwrap_or(true))
                || (s < ack_len && matches!(*ack_seen.lock().unwrap(), Some((false, _))))
        }
        None => false,
    };
    if outcome != "done" && !gave_up_early {
        out.fail(
            "no_progress",
            format!("{sig}/{outcome}"),
            format!(
                "reader {outcome} after {} packets although {} complete packets{} were available",
                got.frames.len(),
                expect_ok,
                if plan.cut.is_some() { " and the end of the stream" } else { "" }
            ),
        );
        return finish(out, &log, plan, want_trace);
    }
    if ack_first {
        // whatever write_packet_with_ack makes of an acknowledgement that carries data, it must have
        // consumed exactly that packet
        if let Some((ok, cur)) = *ack_seen.lock().unwrap() {
            let stalled_inside = stall_points.iter().any(|off| *off < ack_len) || plan.read_errs.iter().any(|(off, _)| (*off as u64) < ack_len);
            if cur != ack_len && !(stalled_inside && !ok) {
                out.fail(
                    if cur > ack_len { "read_ahead" } else { "under_read" },
                    format!("{sig}/ack"),
                    format!("write_packet_with_ack returned {} with read cursor {cur}, the acknowledgement (80 00 + {} data bytes) ends at {ack_len}", if ok { "Ok" } else { "Err" }, plan.ack_first.unwrap_or(0)),
                );
            }
            out.stats.hit("probe.ack_with_data");
        }
    }
    // (1) frames in order, byte-identical; (2) cursor at the boundary after each
    // A reader that gives a packet up after a second or more of silence breaks nothing in this
    // property: from the first long stall on, an error (and whatever follows it) is acceptable -
    // a wrong packet never is.
    let long_stall: Option<u64> = early_long_stall;
    let mut gave_up = false;
    if gave_up_early && plan.cut.is_some() {
        // with a cut as well, the stalled packet may lie beyond the complete ones
        gave_up = true;
    }
    if let (Some(s), Some((false, _))) = (long_stall, *ack_seen.lock().unwrap()) {
        if s < ack_len {
            // gave up inside the acknowledgement in front
            gave_up = true;
        }
    }
    for i in 0..expect_ok {
        if gave_up {
            break;
        }
        if let (Some(s), Some((Err(_), cur))) = (long_stall, got.frames.get(i)) {
            // (a packet the parser refuses fails anyway; it was given up if it was not consumed completely)
            if ends[i] > s && (!rejected_for_judge[i] || *cur != ends[i]) {
                out.stats.hit("probe.gave_up_during_a_stall");
                gave_up = true;
                break;
            }
        }
        if rejected_for_judge[i] {
            // refused by the parser: an error, the packet consumed completely, nothing more
            match got.frames.get(i) {
                Some((Err(_), cur)) => {
                    if *cur != ends[i] {
                        out.fail(
                            if *cur > ends[i] { "read_ahead" } else { "under_read" },
                            sig.clone(),
                            format!("packet {i} was refused by its parser; the read cursor is {cur}, the packet ends at {}", ends[i]),
                        );
                    }
                }
                Some((Ok(_), _)) => out.fail("frame_content", sig.clone(), format!("packet {i} must have been handed to the parser with its class byte ee")),
                None => {
                    out.fail("missing_packet", sig.clone(), format!("only {} of {} packets were read", got.frames.len(), expect_ok));
                    break;
                }
            }
            continue;
        }
        match got.frames.get(i) {
            Some((Ok(f), cur)) => {
                if *f != refs[i] {
                    out.fail(
                        "frame_content",
                        sig.clone(),
                        format!(
                            "packet {i}: transport handed {} bytes {}.. to the parser, expected {} bytes {}..",
                            f.len(),
                            crate::conn::hex(&f[..f.len().min(8)]),
                            refs[i].len(),
                            crate::conn::hex(&refs[i][..refs[i].len().min(8)])
                        ),
                    );
                }
                if *cur != ends[i] {
                    out.fail(
                        if *cur > ends[i] { "read_ahead" } else { "short_read" },
                        sig.clone(),
                        format!("after packet {i} the read cursor is {cur}, the packet ends at {}", ends[i]),
                    );
                }
            }
            Some((Err(e), _)) => {
                out.fail("spurious_error", sig.clone(), format!("packet {i} is complete in the stream but read_packet failed: {e}"));
                break;
            }
            None => {
                out.fail("missing_packet", sig.clone(), format!("only {} of {} packets were returned", got.frames.len(), expect_ok));
                break;
            }
        }
    }
    if gave_up {
        // nothing after the point where the reader gave up is judged
    } else if plan.cut.is_some() {
        // (4) the call after the last complete packet must fail, and so must the next
        for j in expect_ok..got.frames.len() {
            if let (Ok(f), _) = &got.frames[j] {
                out.fail(
                    "packet_from_truncated_stream",
                    sig.clone(),
                    format!(
                        "stream ends at byte {avail} inside packet {j}, yet read_packet returned a packet of {} bytes",
                        f.len()
                    ),
                );
            }
        }
        if got.frames.len() <= expect_ok && out.violations.is_empty() {
            out.fail("missing_error", sig.clone(), "no error reported at the end of the stream");
        }
        if h.cursor() > avail as u64 {
            out.fail("read_ahead", sig.clone(), "cursor beyond the end of the stream");
        }
    } else {
        // (3) sentinel intact is covered by the loop (it is the last expected frame);
        // nothing may remain unread or be over-read
        if h.cursor() != stream_len as u64 {
            out.fail("cursor_end", sig.clone(), format!("cursor {} after reading all packets of a {} byte stream", h.cursor(), stream_len));
        }
    }
    let _ = n_payload;
    finish(out, &log, plan, want_trace)
}

fn finish(mut out: RunOut, log: &SharedLog, plan: &C04Plan, want_trace: bool) -> RunOut {
    let log = log.lock().unwrap();
    out.trace_hash = log.hash();
    if want_trace {
        out.trace = log.render();
        // long traces: keep head and tail
        if out.trace.len() > 400 {
            let tail = out.trace.split_off(out.trace.len() - 100);
            out.trace.truncate(200);
            out.trace.push("...".into());
            out.trace.extend(tail);
        }
    }
    let mut sh = Hasher64::default();
    for f in &plan.frames {
        sh.u64(f.len as u64);
        sh.u8(f.via_writer as u8);
    }
    sh.u64(plan.cut.map(|c| c.0 as u64 + 1).unwrap_or(0));
    let mut reads = 0u64;
    for e in &log.entries {
        if let Ev::Read(n) = e.ev {
            if e.conn == 0 && reads < 64 {
                sh.u64(n as u64);
                reads += 1;
            }
        }
    }
    out.shape = sh.finish();
    out.nontrivial = !plan.sched.is_trivial() || plan.cut.is_some() || plan.frames.len() > 1 || !plan.stalls.is_empty() || !plan.read_errs.is_empty();
    if !plan.stalls.is_empty() {
        out.stats.hit("fault.peer_stall");
    }
    if plan.cut.is_some() {
        out.stats.hit("fault.stream_cut");
    }
    if plan.frames.iter().any(|f| f.len >= 255) {
        out.stats.hit("probe.extended_header");
    }
    out
}

fn small_frame(rng: &mut Rng) -> FrameSpec {
    let len = match rng.below(10) {
        0 => 0,
        1 => 1,
        2 => 2,
        3 => rng.range(250, 260) as u32,
        4 => rng.range(0, 20) as u32,
        _ => rng.range(0, 6) as u32,
    };
    FrameSpec {
        class: *rng.pick(&[0x04u8, 0x06, 0x80, 0x84, 0xff, 0x00, REJECTED_CLASS]),
        instr: *rng.pick(&[0x0fu8, 0xff, 0x00, 0xd1, 0x1e]),
        len,
        fill: rng.next_u64() as u8,
        via_writer: rng.pct(40),
    }
}

fn sentinel() -> Vec<u8> {
    vec![0x5a, 0xa5, 0x02, 0xde, 0xad]
}

/// All compositions of `n` into ordered positive parts, by index (2^(n-1) of them).
fn composition(n: usize, index: u64) -> Vec<u32> {
    let mut parts = vec![];
    let mut cur = 1u32;
    for bit in 0..n.saturating_sub(1) {
        if index >> bit & 1 == 1 {
            parts.push(cur);
            cur = 1;
        } else {
            cur += 1;
        }
    }
    if n > 0 {
        parts.push(cur);
    }
    parts
}

impl Check for C04 {
    type Plan = C04Plan;
    fn id(&self) -> &'static str {
        "C04"
    }
    fn level(&self) -> &'static str {
        "fault_enumeration"
    }

    fn families(&self, tier: Tier, _seed: u64) -> Vec<Family<C04Plan>> {
        let mut fams = vec![];
        // (a) header agreement: writer vs reader for body lengths
        let lens: Vec<u32> = match tier {
            Tier::Thorough => (0..=65535).collect(),
            Tier::Quick => {
                let mut v: Vec<u32> = (0..=600).collect();
                v.extend(65520..=65535);
                v.extend([1000, 4095, 4096, 32767, 32768, 65279, 65280, 0xff00, 0xfeff, 0x100 * 0xff]);
                let mut rng = Rng::new(0xC04);
                for _ in 0..150 {
                    v.push(rng.below(65536) as u32);
                }
                v.sort();
                v.dedup();
                v
            }
        };
        let exhaustive_lens = tier == Tier::Thorough;
        let n = lens.len() as u64;
        fams.push(Family::new("header_agreement_writer_reader", n * 2, exhaustive_lens, move |i, rng| {
            let len = lens[(i / 2) as usize];
            let sched = if i % 2 == 0 {
                Sched::whole()
            } else {
                Sched {
                    read_mode: ChunkMode::Random(*rng.pick(&[3u16, 7, 255, 4096])),
                    read_pending_pct: 20,
                    write_mode: ChunkMode::Random(*rng.pick(&[2u16, 5, 300, 5000])),
                    write_pending_pct: 10,
                    seed: rng.next_u64(),
                    ..Sched::whole()
                }
            };
            C04Plan {
                frames: vec![FrameSpec {
                    class: 0x06,
                    instr: 0xd1,
                    len,
                    fill: 0x41,
                    via_writer: true,
                }],
                wsched: sched.clone(),
                sched,
                cut: None,
                sentinel: sentinel(),
                label: "header".into(),
                stalls: vec![],
                ack_first: None,
                read_errs: vec![],
            }
        }));
        // (b) every partition of short streams (covers 3- and 5-byte headers split everywhere)
        // stream A: 80 00 00 | 06 1e 01 6c | sentinel(5) = 12 bytes -> 2^11 partitions
        fams.push(Family::new("all_partitions_12_byte_stream", 1 << 11, true, |i, _rng| {
            let mut sched = Sched::whole();
            sched.read_list = composition(12, i);
            C04Plan {
                frames: vec![
                    FrameSpec { class: 0x80, instr: 0x00, len: 0, fill: 0, via_writer: false },
                    FrameSpec { class: 0x06, instr: 0x1e, len: 1, fill: 0x6c, via_writer: false },
                ],
                sched,
                wsched: Sched::whole(),
                cut: None,
                sentinel: sentinel(),
                label: "partitions".into(),
                stalls: vec![],
                ack_first: None,
                read_errs: vec![],
            }
        }));
        // stream A': a packet its parser refuses, then a good one: 5 + 4 + 5 = 14 bytes -> 2^13 partitions
        fams.push(Family::new("all_partitions_refused_packet_then_good_one", 1 << 13, true, |i, _rng| {
            let mut sched = Sched::whole();
            sched.read_list = composition(14, i);
            C04Plan {
                frames: vec![
                    FrameSpec { class: REJECTED_CLASS, instr: 0x01, len: 2, fill: 0x06, via_writer: false },
                    FrameSpec { class: 0x06, instr: 0x1e, len: 1, fill: 0x6c, via_writer: false },
                ],
                sched,
                wsched: Sched::whole(),
                cut: None,
                sentinel: sentinel(),
                label: "partitions_refused".into(),
                stalls: vec![],
                ack_first: None,
                read_errs: vec![],
            }
        }));
        // stream B: extended header: 5 header bytes split everywhere, body 255 in one piece or bytewise
        fams.push(Family::new("all_partitions_extended_header", (1 << 7) * 2, true, |i, _rng| {
            let mut sched = Sched::whole();
            // first 8 bytes (header 5 + 3 body bytes) partitioned in all ways, rest whole or one-byte
            sched.read_list = composition(8, i / 2);
            if i % 2 == 1 {
                sched.read_mode = ChunkMode::One;
            }
            C04Plan {
                frames: vec![FrameSpec { class: 0x06, instr: 0xd1, len: 255 + (i % 3) as u32, fill: 0x42, via_writer: i % 4 < 2 }],
                sched,
                wsched: Sched::one_byte(),
                cut: None,
                sentinel: sentinel(),
                label: "partitions_ext".into(),
                stalls: vec![],
                ack_first: None,
                read_errs: vec![],
            }
        }));
        // (c) end of stream at every byte position of a multi-frame stream
        {
            let frames = vec![
                FrameSpec { class: 0x80, instr: 0x00, len: 0, fill: 0, via_writer: true },
                FrameSpec { class: 0x04, instr: 0xff, len: 2, fill: 0x17, via_writer: false },
                FrameSpec { class: 0x06, instr: 0xd1, len: 256, fill: 0x41, via_writer: true },
                FrameSpec { class: 0x06, instr: 0x0f, len: 0, fill: 0, via_writer: false },
                FrameSpec { class: 0x04, instr: 0x0f, len: 254, fill: 0x27, via_writer: false },
            ];
            let total: u32 = frames.iter().map(|f| f.reference().len() as u32).sum::<u32>() + 5;
            fams.push(Family::new("eof_at_every_byte_position", (total as u64 + 1) * 3, true, move |i, rng| {
                let at = (i / 3) as u32;
                let (sched, kind) = match i % 3 {
                    0 => (Sched::whole(), CloseKind::Eof),
                    1 => (Sched::one_byte(), CloseKind::Eof),
                    _ => (
                        Sched {
                            read_mode: ChunkMode::Random(9),
                            read_pending_pct: 30,
                            seed: rng.next_u64(),
                            ..Sched::whole()
                        },
                        CloseKind::Reset,
                    ),
                };
                C04Plan {
                    frames: frames.clone(),
                    sched,
                    wsched: Sched::whole(),
                    cut: Some((at, kind)),
                    sentinel: sentinel(),
                    label: "eof".into(),
                    stalls: vec![],
                    ack_first: None,
                    read_errs: vec![],
                }
            }));
        }
        // (c2) the peer stalls at every byte position of a four-packet stream (inside 3- and 5-byte
        // headers, inside bodies, between packets) for 1 ms .. 1 h of virtual time: read_packet has
        // no timer, so nothing may change
        {
            let frames = vec![
                FrameSpec { class: 0x80, instr: 0x00, len: 0, fill: 0, via_writer: false },
                FrameSpec { class: 0x04, instr: 0xff, len: 2, fill: 0x17, via_writer: false },
                FrameSpec { class: 0x06, instr: 0xd1, len: 256, fill: 0x41, via_writer: true },
                FrameSpec { class: 0x06, instr: 0x1e, len: 1, fill: 0x6c, via_writer: false },
            ];
            // offsets: every position of the first two packets, of the extended header and a few
            // body bytes of the third, and around the last
            let total: u32 = frames.iter().map(|f| f.reference().len() as u32).sum::<u32>() + 5;
            let mut offs: Vec<u32> = (0..=16).collect();
            offs.extend(total - 12..=total);
            let durs = [1u32, 999, 4_999, 5_001, 30_000, 61_000, 3_600_000];
            let n = offs.len() as u64 * durs.len() as u64;
            fams.push(Family::new("stall_at_byte_positions_x_durations", n, true, move |i, _| {
                let off = offs[(i / durs.len() as u64) as usize];
                let ms = durs[(i % durs.len() as u64) as usize];
                C04Plan {
                    frames: frames.clone(),
                    sched: if i % 2 == 0 { Sched::whole() } else { Sched::one_byte() },
                    wsched: Sched::whole(),
                    cut: None,
                    sentinel: sentinel(),
                    label: "stall".into(),
                    stalls: vec![(off, ms)],
                    ack_first: None,
                    read_errs: vec![],
                }
            }));
        }
        // (c3) a transient read error (EINTR / EAGAIN / ETIMEDOUT) at every byte position of the same stream
        {
            let frames = vec![
                FrameSpec { class: 0x80, instr: 0x00, len: 0, fill: 0, via_writer: false },
                FrameSpec { class: 0x04, instr: 0xff, len: 2, fill: 0x17, via_writer: false },
                FrameSpec { class: 0x06, instr: 0xd1, len: 256, fill: 0x41, via_writer: true },
                FrameSpec { class: 0x06, instr: 0x1e, len: 1, fill: 0x6c, via_writer: false },
            ];
            let total: u32 = frames.iter().map(|f| f.reference().len() as u32).sum::<u32>() + 5;
            let mut offs: Vec<u32> = (0..=20).collect();
            offs.extend([100, 200]);
            offs.extend(total - 12..=total);
            let n = offs.len() as u64 * 3 * 2;
            fams.push(Family::new("transient_read_error_at_byte_positions", n, true, move |i, _| {
                let off = offs[(i / 6) as usize];
                C04Plan {
                    frames: frames.clone(),
                    sched: if i % 2 == 0 { Sched::whole() } else { Sched::one_byte() },
                    wsched: Sched::whole(),
                    cut: None,
                    sentinel: sentinel(),
                    label: "read_err".into(),
                    stalls: vec![],
                    ack_first: None,
                    read_errs: vec![(off, ((i / 2) % 3) as u8)],
                }
            }));
        }
        // (d) PRNG packet sequences x PRNG schedules x optional cut
        let count = match tier {
            Tier::Quick => 300_000,
            Tier::Thorough => 6_000_000,
        };
        fams.push(Family::new("random_streams", count, false, |_i, rng| {
            let k = 1 + rng.usize_below(6);
            let frames: Vec<FrameSpec> = (0..k).map(|_| small_frame(rng)).collect();
            let total: usize = frames.iter().map(|f| f.reference().len()).sum::<usize>() + 5;
            let cut = if rng.pct(35) {
                Some((
                    rng.below(total as u64 + 1) as u32,
                    if rng.pct(70) { CloseKind::Eof } else { CloseKind::Reset },
                ))
            } else {
                None
            };
            let mut stalls = vec![];
            if rng.pct(20) {
                for _ in 0..1 + rng.usize_below(3) {
                    stalls.push((rng.below(total as u64 + 1) as u32, *rng.pick(&[1u32, 50, 2_000, 5_500, 70_000, 1_000_000])));
                }
                stalls.sort();
            }
            C04Plan {
                frames,
                sched: Sched::random(rng),
                wsched: Sched::random(rng),
                cut,
                sentinel: sentinel(),
                label: "random".into(),
                stalls,
                ack_first: if rng.pct(10) { Some(*rng.pick(&[0u32, 1, 2, 3, 254, 255, 256, 1000])) } else { None },
                read_errs: if rng.pct(12) { vec![(rng.below(total as u64 + 1) as u32, rng.below(3) as u8)] } else { vec![] },
            }
        }));
        fams
    }

    fn run(&self, plan: &C04Plan, want_trace: bool) -> RunOut {
        run_plan(plan, want_trace)
    }

    fn shrink(&self, plan: &C04Plan) -> Vec<C04Plan> {
        let mut out = vec![];
        let mut push = |p: C04Plan| {
            if p != *plan {
                out.push(p)
            }
        };
        let mut p = plan.clone();
        p.sched = Sched::whole();
        p.wsched = Sched::whole();
        push(p);
        let mut p = plan.clone();
        p.sched.read_pending_pct = 0;
        p.sched.read_list.clear();
        push(p);
        if !plan.stalls.is_empty() {
            let mut p = plan.clone();
            p.stalls.clear();
            push(p);
            let mut p = plan.clone();
            p.stalls.truncate(1);
            push(p);
        }
        if plan.cut.is_none() {
            for i in 0..plan.frames.len() {
                if plan.frames.len() > 1 {
                    let mut p = plan.clone();
                    p.frames.remove(i);
                    push(p);
                }
            }
        }
        for i in 0..plan.frames.len() {
            if plan.frames[i].len > 0 && plan.cut.is_none() {
                for l in [0, 1, plan.frames[i].len / 2, plan.frames[i].len - 1] {
                    let mut p = plan.clone();
                    p.frames[i].len = l;
                    push(p);
                }
            }
        }
        out
    }

    fn rule_text(&self) -> String {
        "one run = k frames (real write_packet output of PrintLine/Ack for via_writer frames, reference framing otherwise) + sentinel, read back by the real read_packet::<RawFrame> over a SimConn; families: writer/reader header agreement per body length (thorough: all 0..65535; quick: 0..600, the top 16, boundary and PRNG lengths), all 2^11 partitions of a 12-byte three-packet stream, all 2^13 partitions of a stream whose first packet the parser refuses (it must be consumed completely and framing must go on), all partitions of an extended (5-byte) header, end of stream at every byte position of a five-packet stream (EOF and ECONNRESET), a stall of the peer (1 ms .. 1 h of virtual time) at every byte position of the headers and around the packet boundaries of a four-packet stream, a transient read error (EINTR, EAGAIN, ETIMEDOUT) at every byte position (the packet may fail or be retried, a wrong packet never comes out), PRNG streams x PRNG schedules x optional cut x optional stalls x optional transient errors; distinct = hash of (frame lengths, cut position, first 64 read sizes); non-trivial = non-whole schedule, a cut, or more than one frame".into()
    }
    fn assumptions(&self) -> Vec<String> {
        vec![
            "reference APDU framing: cc ii LL for body < 255, cc ii FF lo hi (little endian) from 255 to 65535".into(),
            "RawFrame (harness type implementing the public ZvtParser trait) sees exactly the slice the transport considers one packet".into(),
        ]
    }
    fn components_real(&self) -> Vec<&'static str> {
        vec![
            "zvt::io::PacketTransport::read_packet / write_packet",
            "zvt_builder::length::Adpu::serialize via the blanket ZvtSerializer impl",
            "tokio::io read_exact / write_all",
        ]
    }
    fn components_stub(&self) -> Vec<&'static str> {
        vec!["connection (SimConn)", "peer (preloaded byte stream)", "executor (own poll loop)"]
    }
    fn expected_probes(&self) -> Vec<&'static str> {
        vec!["probe.extended_header", "fault.stream_cut", "fault.eof_delivered", "fault.reset_delivered", "sched.partial_read"]
    }
}
