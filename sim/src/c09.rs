//! C09 — a connection that saw a failure is never reused; fresh ones are
//! vetted. Faulty-transport configuration of the client engine with its own,
//! purpose-built oracle over the per-connection event log (DESIGN.md 6, C09):
//! R1 vetting, R2 abandon, R2b no stacking, R3 reuse, R4 fresh/one-at-a-time,
//! R5 recovery. Single faults are enumerated over every emission point of
//! every connection (handshake included); multi-fault sequences are sampled.
use crate::cchecks::{random_transport, shrink_client_plan};
use crate::client::{self, ClientPlan, ClientRun, ConnectSpec, OkVal, OpResult, OpSpec};
use crate::conn::Ev;
use crate::framework::{panic_sig, Check, Family, RunOut, Tier};
use crate::model::{judge_fault_free, shape_of};
use crate::pt::*;
use crate::refcodec as rc;
use crate::rng::Rng;
use std::sync::Arc;

pub struct C09;

#[derive(Clone, Debug)]
pub struct Frame {
    pub conn: u16,
    /// Log index of the write that completed the frame.
    pub seq: usize,
    pub bytes: Vec<u8>,
}

/// Client frames per connection, reconstructed from the event log.
pub fn client_frames(run: &ClientRun) -> Vec<Frame> {
    let log = run.log.lock().unwrap();
    let mut bufs: std::collections::BTreeMap<u16, Vec<u8>> = Default::default();
    let mut out = vec![];
    for (i, e) in log.entries.iter().enumerate() {
        if let Ev::Write(b) = &e.ev {
            let buf = bufs.entry(e.conn).or_default();
            buf.extend_from_slice(b);
            while let Some(f) = rc::take_frame(buf) {
                out.push(Frame {
                    conn: e.conn,
                    seq: i,
                    bytes: f,
                });
            }
        }
    }
    out
}

/// The device id the simulated terminal puts on the wire (8 characters, space padded).
pub fn reported_serial(plan: &ClientPlan) -> String {
    let mut s: String = plan.pt.serial.chars().take(8).collect();
    while s.len() < 8 {
        s.push(' ');
    }
    s
}

/// A terminal reporting another serial is a standing fault: nothing can succeed.
pub fn serial_mismatch(plan: &ClientPlan) -> bool {
    !reported_serial(plan).eq_ignore_ascii_case(&plan.cfg.serial)
}

/// Reported and configured serial differ in white space only: whether that is "a different serial
/// number" is left open, nothing about vetting is judged in such a run.
pub fn serial_differs_in_whitespace_only(plan: &ClientPlan) -> bool {
    serial_mismatch(plan) && reported_serial(plan).trim().eq_ignore_ascii_case(plan.cfg.serial.trim())
}

/// Result codes with which a terminal declines a transaction or reports its own state in the normal
/// course of business (as opposed to system, protocol and communication errors: 9A, FF, ...).
pub fn business_abort(c: u8) -> bool {
    matches!(c, 0x64..=0x6f | 0x78 | 0xa0 | 0xb4 | 0xb5 | 0xb7 | 0xb8 | 0xfc)
}

pub fn judge_faulty(plan: &ClientPlan, run: &ClientRun, out: &mut RunOut) {
    if serial_differs_in_whitespace_only(plan) {
        out.stats.hit("probe.serial_differs_in_whitespace_only");
        return;
    }
    for o in &run.ops {
        match &o.result {
            OpResult::Panic { loc, msg } => {
                out.fail("panic", panic_sig(loc, msg), format!("{} panicked at {loc}: {msg}", o.name));
                return;
            }
            OpResult::Hang => {
                // hangs as such are C10's business; the log up to here is still judged - and where the
                // call was waiting on a connection that had fallen silent, C09's own clause applies: the
                // failure (a time-out) was never noticed, so the connection was never abandoned
                out.stats.hit("probe.run_ended_in_hang");
                let pt = run.pt.lock().unwrap();
                if let Some(f) = pt.fired.iter().filter(|f| matches!(f.kind, FaultKind::Silence | FaultKind::StallMid(_)) && f.seq >= o.log_from).last() {
                    out.fail(
                        "not_abandoned",
                        "r2/never_timed_out",
                        format!("connection {} fell silent during {:02x} {:02x} (event #{}); {} was still waiting on it a virtual day later (read_card_timeout = {})", f.conn, f.during.0, f.during.1, f.seq, o.name, plan.cfg.read_card_timeout),
                    );
                }
            }
            _ => {}
        }
    }
    let frames = client_frames(run);
    let log = run.log.lock().unwrap();
    let pt = run.pt.lock().unwrap();
    let n_conn = run.conns.len() as u16;
    let open_seq = |k: u16| run.conns[k as usize].opened_seq;
    let drop_seq = |k: u16| -> Option<usize> {
        log.entries
            .iter()
            .position(|e| e.conn == k && matches!(e.ev, Ev::Drop))
    };
    let pw = rc::bcd(plan.cfg.password as u64, 3);
    let cur = rc::bcd(plan.cfg.currency as u64, 2);

    // (Whether the old connection is closed before or after the next one opens is not pinned: what
    // counts is that nothing is written on it any more - R2 - and that it is gone when the call returns.)
    for k in 0..n_conn {
        let fs: Vec<&Frame> = frames.iter().filter(|f| f.conn == k).collect();
        // R1 vetting
        if let Some(f0) = fs.first() {
            let b = &f0.bytes;
            // Registration: 06 00 LL password(3) config byte currency(2) [further optional fields]
            let ok = b.len() >= 9 && b[0] == 0x06 && b[1] == 0x00 && b[3..6] == pw[..] && b[7..9] == cur[..];
            if !ok {
                out.fail(
                    "unvetted_connection",
                    "r1/registration",
                    format!(
                        "first frame on connection {k} is {} — expected a Registration with password {} and currency {}",
                        crate::conn::hex(b),
                        plan.cfg.password,
                        plan.cfg.currency
                    ),
                );
            }
        }
        let cmds: Vec<&&Frame> = fs.iter().filter(|f| (f.bytes[0], f.bytes[1]) != (0x80, 0x00)).collect();
        if let Some(c1) = cmds.get(1) {
            // the identity request: 0F A1 (with or without the service password in front of the function code)
            if (c1.bytes[0], c1.bytes[1]) != (0x0f, 0xa1) {
                out.fail(
                    "unvetted_connection",
                    "r1/identity",
                    format!("second command on connection {k} is {} — expected the identity request 0F A1", crate::conn::hex(&c1.bytes)),
                );
            }
        }
        let ident = pt.identity_sent.iter().find(|(c, _, _)| *c == k);
        for c in cmds.iter().skip(2) {
            let vetted = match ident {
                Some((_, serial, seq)) => serial.eq_ignore_ascii_case(&plan.cfg.serial) && *seq < c.seq,
                None => false,
            };
            if !vetted {
                out.fail(
                    "unvetted_connection",
                    if ident.is_some() { "r1/wrong_serial_used" } else { "r1/no_identity" },
                    format!(
                        "command {} was written on connection {k} although no identity reply with the configured serial {:?} had been delivered there (delivered: {:?})",
                        crate::conn::hex(&c.bytes),
                        plan.cfg.serial,
                        ident.map(|i| &i.1)
                    ),
                );
                break;
            }
        }
        // after a wrong serial: only the protocol acknowledgement of that reply
        if let Some((_, serial, seq)) = ident {
            if !serial.eq_ignore_ascii_case(&plan.cfg.serial) {
                let after: Vec<&&Frame> = fs.iter().filter(|f| f.seq > *seq).collect();
                if after.iter().any(|f| f.bytes[..] != rc::ACK) || after.len() > 1 {
                    out.fail("unvetted_connection", "r1/after_wrong_serial", format!("frames after a wrong-serial identity reply on connection {k}: {:?}", after.iter().map(|f| crate::conn::hex(&f.bytes)).collect::<Vec<_>>()));
                }
                out.stats.hit("probe.wrong_serial_seen");
                // and the connection must be dropped before anything else happens
                if drop_seq(k).is_none() {
                    out.fail("not_abandoned", "r2/wrong_serial", format!("connection {k} reported a foreign serial and was not dropped"));
                }
            }
        }
    }

    // R2c unsolicited bytes behind the last frame of an exchange lie where only the acknowledgement of
    // the next command may come: that next exchange fails (the connection is not used beyond the
    // one command the client could not help writing), it is never carried through on these bytes
    for f in pt.fired.iter().filter(|f| matches!(f.kind, FaultKind::StaleAfter(_)) && f.at_final_frame()) {
        let k = f.conn;
        let later: Vec<&Frame> = frames.iter().filter(|x| x.conn == k && x.seq > f.seq).collect();
        // a client that drains what lies in a connection *before* it writes the next command has
        // discarded noise, nothing more; the rule is about bytes still unread when the command goes out
        // (they are then read where its acknowledgement is due)
        let mut released = 0u64;
        for (i, e) in log.entries.iter().enumerate().filter(|(_, e)| e.conn == k) {
            if let Ev::Release(n) = e.ev {
                released += n as u64;
                if i >= f.seq {
                    break; // the release that carried the frame and the unsolicited bytes behind it
                }
            }
        }
        let first_cmd = later.iter().find(|x| x.bytes[..] != rc::ACK);
        let unread_at_command = first_cmd.map(|c| log.entries[c.seq].cursor < released).unwrap_or(false);
        if !unread_at_command {
            if first_cmd.is_some() {
                out.stats.hit("probe.stale_bytes_drained_before_command");
            }
            continue;
        }
        let mut commands = 0;
        for x in &later {
            let is_ack = x.bytes[..] == rc::ACK;
            if !is_ack {
                commands += 1;
            }
            if commands > 1 || (is_ack && commands == 1) {
                out.stats.hit("probe.stale_packet_judged");
                out.fail(
                    "stale_packet_absorbed",
                    format!("r2c/{:?}", f.kind),
                    format!(
                        "connection {k}: the terminal left unsolicited bytes behind the last frame of {:02x} {:02x} (event #{}); the next command cannot have been acknowledged, yet the client went on with {} on that connection",
                        f.during.0,
                        f.during.1,
                        f.seq,
                        crate::conn::hex(&x.bytes)
                    ),
                );
                break;
            }
        }
        if commands > 0 {
            out.stats.hit("probe.command_after_stale_packet");
        }
    }
    // R2 abandon
    for f in &pt.fired {
        if matches!(f.kind, FaultKind::WrongSerial | FaultKind::IdentityAbort(_) | FaultKind::StaleAfter(_) | FaultKind::CloseIdle) {
            // identity faults are judged with R1 above; unsolicited bytes behind a good frame are
            // only seen by the client when it reads them (the hang they may cause is C10's)
            continue;
        }
        // (in the client-engine families of the wire properties C04-C06 / C15 a negative acknowledgement is
        // not held against the connection: it ends the exchange at protocol level, and those properties
        // say nothing about what a *later* exchange may use - C09 itself names NACK as a failure)
        if plan.label.starts_with("via_client/") && f.at_ack && matches!(f.kind, FaultKind::Nack(_) | FaultKind::BadBody) {
            continue;
        }
        let k = f.conn;
        let kind = format!("{:?}", f.kind).split('(').next().unwrap_or("").to_string();
        let later: Vec<&Frame> = frames.iter().filter(|x| x.conn == k && x.seq > f.seq).collect();
        if !later.is_empty() {
            out.fail(
                "write_after_failure",
                format!("r2/{kind}"),
                format!(
                    "connection {k} saw {:?} at emission point {} (event #{}), yet the client wrote {} on it afterwards",
                    f.kind,
                    f.point,
                    f.seq,
                    crate::conn::hex(&later[0].bytes)
                ),
            );
        }
        // dropped before the next connection opens and before the call returns
        let op_end = run
            .ops
            .iter()
            .find(|o| o.log_from <= f.seq && f.seq < o.log_to)
            .map(|o| (o.log_to, matches!(o.result, OpResult::Hang)));
        let d = drop_seq(k);
        let next_open = if k + 1 < n_conn { Some(open_seq(k + 1)) } else { None };
        let _ = next_open;
        let dropped_in_time = match (d, op_end) {
            (Some(d), Some((end, false))) => d < end,
            (Some(_), _) => true,
            (None, Some((_, true))) => true, // the call hung: C10
            (None, _) => false,
        };
        if !dropped_in_time {
            out.fail(
                "not_abandoned",
                format!("r2/{kind}"),
                format!("connection {k} saw {:?} during {:02x} {:02x} (event #{}) and was not dropped before the call returned", f.kind, f.during.0, f.during.1, f.seq),
            );
        }
    }
    // R2d: nothing is repeated that went through. When an exchange ran to its end on the terminal's side
    // (final packet emitted and acknowledged, no fault at or after its start within the call), the same
    // command is not sent again within that call - an earlier, failed attempt of the call is no reason
    {
        let mut by_op: std::collections::BTreeMap<i32, Vec<&ReqLog>> = Default::default();
        for r in pt.requests.iter().filter(|r| !r.handshake && r.op >= 0) {
            by_op.entry(r.op).or_default().push(r);
        }
        for (op, rs) in by_op {
            let Some(o) = run.ops.iter().find(|o| o.index == op) else { continue };
            for (i, r1) in rs.iter().enumerate() {
                if r1.completed.is_none() || !r1.final_acked || r1.pkt.is_none() {
                    continue;
                }
                // the client's acknowledgement of the final packet arrived: the next frame on that connection
                // (or none) is not an anomaly, and no fault fired from the exchange's start to the call's end
                let fault_after = pt.fired.iter().any(|f| f.seq >= r1.seq && f.seq < o.log_to);
                let anomaly_after = pt.anomalies.iter().any(|(s, _, _)| *s >= r1.seq && *s < o.log_to);
                if fault_after || anomaly_after || run.connect_log.iter().any(|(s, c)| *s >= r1.seq && *s < o.log_to && !matches!(c, ConnectSpec::Ok | ConnectSpec::DelayMs(_))) {
                    continue;
                }
                if let Some(r2) = rs.iter().skip(i + 1).find(|r2| r2.frame == r1.frame && r2.conn != r1.conn) {
                    out.stats.hit("probe.resend_judged");
                    out.fail(
                        "resent_after_completion",
                        format!("r2d/{:02x}{:02x}", r1.frame[0], r1.frame[1]),
                        format!(
                            "{}: the exchange of {} ran to its end on connection {} (event #{}), nothing went wrong after that, yet the same command was sent again on connection {} (event #{})",
                            o.name,
                            crate::conn::hex(&r1.frame[..r1.frame.len().min(12)]),
                            r1.conn,
                            r1.seq,
                            r2.conn,
                            r2.seq
                        ),
                    );
                    break;
                }
            }
        }
    }
    // R2 for failed writes: once a write on connection k failed, the client never tries again on k
    for k in 0..n_conn {
        let errs: Vec<usize> = log.entries.iter().enumerate().filter(|(_, e)| e.conn == k && matches!(e.ev, Ev::WriteErr)).map(|(i, _)| i).collect();
        if errs.len() > 1 {
            out.fail(
                "write_after_failure",
                "r2/EpipeAfter",
                format!("a write on connection {k} failed (event #{}), yet the client attempted another write on it (event #{})", errs[0], errs[1]),
            );
        }
        // ... nor keeps reading from it
        if let Some(first) = errs.first() {
            if let Some((i, _)) = log.entries.iter().enumerate().find(|(i, e)| *i > *first && e.conn == k && matches!(e.ev, Ev::Read(_) | Ev::ReadWait | Ev::ReadEof | Ev::ReadErr)) {
                out.fail(
                    "read_after_failure",
                    "r2/EpipeAfter",
                    format!("a write on connection {k} failed (event #{first}), yet the client went on reading from it (event #{i})"),
                );
            }
        }
    }
    // R2b no stacking / writes on dead connections, as seen by the terminal
    for (seq, conn, msg) in &pt.anomalies {
        let rule = if msg.contains("unfinished") {
            "stacked_exchange"
        } else if msg.contains("after its failure") {
            "write_after_failure"
        } else {
            "terminal_anomaly"
        };
        let during = pt
            .requests
            .iter()
            .rev()
            .find(|r| r.conn == *conn && r.seq < *seq && r.pkt.is_some())
            .map(|r| format!("{:02x}{:02x}", r.frame[0], r.frame[1]))
            .unwrap_or_default();
        out.fail(rule, format!("r2b/{during}"), format!("connection {conn}, event #{seq}: {msg}"));
    }

    if serial_mismatch(plan) {
        // R3/R5 presuppose a terminal that can be used at all
        out.stats.hit("probe.serial_mismatch_run");
        return;
    }
    // R3 reuse: a call without any fault keeps its connection for the next call
    let fault_seqs: Vec<usize> = pt.fired.iter().map(|f| f.seq).collect();
    let bad_connects: Vec<usize> = run
        .connect_log
        .iter()
        .filter(|(_, c)| !matches!(c, ConnectSpec::Ok | ConnectSpec::DelayMs(_)))
        .map(|(s, _)| *s)
        .collect();
    for w in run.ops.windows(2) {
        let (a, b) = (&w[0], &w[1]);
        let clean = |o: &client::OpRecord| {
            // (an exchange the terminal ended with a code that speaks of a system / protocol / communication
            // problem is not plainly one that "completes normally": a client may well start afresh after it)
            !pt.requests.iter().any(|r| r.op == o.index && r.abort_sent.map(|c| !business_abort(c)).unwrap_or(false))
                && !fault_seqs.iter().any(|s| o.log_from <= *s && *s < o.log_to)
                && !bad_connects.iter().any(|s| o.log_from <= *s && *s < o.log_to)
                && !matches!(o.result, OpResult::Hang | OpResult::Panic { .. })
        };
        if !clean(a) {
            continue;
        }
        let last_a = pt.requests.iter().filter(|r| r.op == a.index).last();
        let first_b = pt.requests.iter().find(|r| r.op == b.index);
        if let (Some(la), Some(fb)) = (last_a, first_b) {
            // did the terminal consider a's last exchange finished? (F6: it may not be)
            out.stats.hit("probe.reuse_checked");
            let opened_between = run.conns.iter().any(|c| c.opened_seq > la.seq && c.opened_seq < fb.seq);
            if fb.conn != la.conn || opened_between {
                out.fail(
                    "needless_reconnect",
                    format!("r3/{}", a.name),
                    format!(
                        "{} finished without any fault on connection {}, yet the next call ({}) started on connection {}",
                        a.name, la.conn, b.name, fb.conn
                    ),
                );
            }
        }
    }

    // R5 recovery: a state-independent call started after the last fault succeeds
    let last_trouble = fault_seqs.iter().chain(bad_connects.iter()).max().copied();
    for o in run.ops.iter().filter(|o| o.index >= 0) {
        let after = match last_trouble {
            Some(t) => o.log_from > t,
            None => true,
        };
        // faults planned for later connections may still be waiting: only judge
        // when no planned fault is left unfired on a connection that can still be opened
        if !after {
            continue;
        }
        // the previous call must have left the connection in a defined state
        let stacked = pt.anomalies.iter().any(|(s, _, _)| *s < o.log_to);
        if stacked {
            continue;
        }
        match &plan.ops[o.index as usize] {
            OpSpec::ReadCard { card } => {
                if let CardKind::Card { uid: Some(_), apps: None, no_tlv: false, .. } = &card.kind {
                    out.stats.hit("probe.recovery_checked");
                    if !matches!(o.result, OpResult::Ok(OkVal::Membership(_))) {
                        out.fail(
                            "no_recovery",
                            "r5/read_card",
                            format!("read_card started after the last fault, the terminal presented a card, yet it returned {}", o.result.class()),
                        );
                    }
                }
            }
            OpSpec::Configure { out: c } if *c == ConfigureOutcome::plain() => {
                out.stats.hit("probe.recovery_checked");
                if !o.result.is_ok() {
                    out.fail("no_recovery", "r5/configure", format!("configure started after the last fault returned {}", o.result.class()));
                }
            }
            _ => {}
        }
    }
    if pt.fired.is_empty() && bad_connects.is_empty() && plan.faults.is_empty() {
        out.stats.hit("probe.fault_free_run");
    }
    let attempts = run.connect_attempts as u64;
    if attempts >= 20 {
        out.stats.hit("probe.retry_budget_exhausted");
    }
    if fault_seqs.len() > 1 {
        out.stats.hit("probe.multi_fault_run");
    }
}

fn card_op() -> OpSpec {
    OpSpec::ReadCard {
        card: CardOutcome {
            pre: 1,
            kind: CardKind::Card {
                uid: Some("04a1b2c3d4e5f6".into()),
                apps: None,
                nested_apps: None,
                no_tlv: false,
            },
            delay_ms: 0,
        },
    }
}

fn begin(t: &str) -> OpSpec {
    OpSpec::Begin {
        token: t.into(),
        res: ResOutcome {
            pre: 1,
            status: StatusMode::WithReceipt,
            prints: 1,
            end: EndSpec::Completion,
        },
    }
}

fn commit(t: &str) -> OpSpec {
    OpSpec::Commit {
        token: t.into(),
        amount: 1000,
        rev: RevOutcome {
            pre: 1,
            status: true,
            prints: 1,
            end: EndSpec::Completion,
        },
        cleanup: CleanupSpec {
            pending: PendingSpec::Dangling,
            ..CleanupSpec::plain()
        },
    }
}

fn cancel(t: &str) -> OpSpec {
    OpSpec::Cancel {
        token: t.into(),
        rev: RevOutcome::success(),
        cleanup: CleanupSpec::plain(),
    }
}

fn configure() -> OpSpec {
    OpSpec::Configure {
        out: ConfigureOutcome::plain(),
    }
}

/// The workloads whose emission points are enumerated.
pub fn workloads() -> Vec<Vec<OpSpec>> {
    vec![
        vec![card_op(), card_op()],
        vec![begin("A"), commit("A"), card_op()],
        vec![begin("A"), cancel("A"), card_op()],
        vec![begin("A"), begin("B"), cancel("B"), commit("A"), configure()],
        vec![configure(), card_op()],
    ]
}

pub const KINDS: [FaultKind; 15] = [
    FaultKind::ReadErr(0),
    FaultKind::ReadErr(1),
    FaultKind::ReadErr(2),
    FaultKind::EpipeAfter,
    FaultKind::StallMid(2),
    FaultKind::Eof,
    FaultKind::EofMid(2),
    FaultKind::Reset,
    FaultKind::Nack(0x9c),
    FaultKind::Foreign(0x06, 0xd8),
    FaultKind::BadBody,
    FaultKind::Junk,
    FaultKind::Silence,
    FaultKind::WrongSerial,
    FaultKind::EofMid(1),
];

/// Emission points of connection 0 in a fault-free dry run of `ops`.
pub fn dry_points(ops: &[OpSpec], max_tx: u8) -> u16 {
    let mut p = ClientPlan::plain(ops.to_vec());
    p.cfg.max_tx = max_tx;
    let run = client::run(&p);
    // every emission = one Release on connection 0 (undelayed, whole frames)
    let log = run.log.lock().unwrap();
    log.entries
        .iter()
        .filter(|e| e.conn == 0 && matches!(e.ev, Ev::Release(_)))
        .count() as u16
}

impl Check for C09 {
    type Plan = ClientPlan;
    fn id(&self) -> &'static str {
        "C09"
    }
    fn level(&self) -> &'static str {
        "fault_enumeration"
    }

    fn families(&self, tier: Tier, _seed: u64) -> Vec<Family<ClientPlan>> {
        let mut fams = vec![];
        // (whether an "undecodable body" really is undecodable for the library under test is decided per
        // run by the simulated terminal: a body the library reads is not injected as a fault)
        let wl = workloads();
        let mut cases: Vec<(usize, u16, FaultKind)> = vec![];
        for (wi, ops) in wl.iter().enumerate() {
            let pts = dry_points(ops, 2);
            for p in 1..=pts {
                for k in KINDS {
                    // WrongSerial only bites at identity replies; the terminal ignores it elsewhere
                    cases.push((wi, p, k));
                }
            }
        }
        let cases = Arc::new(cases);
        let wl = Arc::new(wl);
        {
            let (cases, wl) = (cases.clone(), wl.clone());
            fams.push(Family::new("single_fault_every_emission_point", cases.len() as u64, true, move |i, _| {
                let (wi, point, kind) = cases[i as usize];
                let mut p = ClientPlan::plain(wl[wi].clone());
                p.cfg.max_tx = 2;
                p.faults = vec![FaultSpec { conn: 0, point, kind }];
                // in every other case the terminal reports its bookings in a currency of its own
                p.pt.status_currency = if i % 2 == 1 { Some(826) } else { None };
                p.label = format!("single/{:?}", kind);
                p
            }));
        }
        {
            // a second fault in the handshake of the retry connection
            let (cases, wl) = (cases.clone(), wl.clone());
            let n = cases.len() as u64 * 4;
            fams.push(Family::new("fault_then_fault_in_retry_handshake", n, true, move |i, _| {
                let (wi, point, kind) = cases[(i / 4) as usize];
                let q = (i % 4) as u16 + 1;
                let k2 = KINDS[((i / 4 + i) % KINDS.len() as u64) as usize];
                let mut p = ClientPlan::plain(wl[wi].clone());
                p.cfg.max_tx = 2;
                p.faults = vec![FaultSpec { conn: 0, point, kind }, FaultSpec { conn: 1, point: q, kind: k2 }];
                p.label = "double".into();
                p
            }));
        }
        // refused connects before / between
        fams.push(Family::new("connect_refused_patterns", 5 * 22, true, {
            let wl = wl.clone();
            move |i, _| {
                let mut p = ClientPlan::plain(wl[(i % 5) as usize].clone());
                p.cfg.max_tx = 2;
                let n = (i / 5) as usize;
                p.connects = vec![ConnectSpec::Refused; n];
                p.label = "refused".into();
                p
            }
        }));
        // serial in another letter case must be accepted (no fault at all)
        fams.push(Family::new("serial_case_variants_accepted", 5 * 3, true, {
            let wl = wl.clone();
            move |i, _| {
                let mut p = ClientPlan::plain(wl[(i % 5) as usize].clone());
                p.cfg.max_tx = 2;
                match i / 5 {
                    0 => p.pt.serial = "17fd1e3c".into(),
                    1 => p.cfg.serial = "17fd1e3c".into(),
                    _ => {
                        p.cfg.serial = "17Fd1e3C".into();
                        p.pt.serial = "17fD1E3c".into();
                    }
                }
                p.label = "case".into();
                p
            }
        }));
        // a terminal whose serial differs from the configured one in any way but letter case
        // is never used for commands (no fault involved)
        fams.push(Family::new("serial_mismatch_never_used", 5 * 12, true, {
            let wl = wl.clone();
            move |i, _| {
                let mut p = ClientPlan::plain(wl[(i % 5) as usize].clone());
                p.cfg.max_tx = 2;
                let (cfg, pt): (&str, &str) = [
                    ("", "17FD1E3C"),
                    ("1", "17FD1E3C"),
                    ("17FD1E3", "17FD1E3C"),
                    ("17FD1E3C0", "17FD1E3C"),
                    ("17FD1E3D", "17FD1E3C"),
                    ("07FD1E3C", "17FD1E3C"),
                    ("7FD1E3C", "17FD1E3C"),
                    ("17fd1e3", "17FD1E3C"),
                    ("17FD1E3C", "17FD1E3"),
                    ("17FD1E3C", "27FD1E3C"),
                    ("17FD1E3C", "17FD1E3c17"),
                    // (a difference in white space only is left open: trimming both sides is a fair reading)
                    ("17FD1E3C", "17FD1E3X"),
                ][(i / 5) as usize];
                p.cfg.serial = cfg.into();
                p.pt.serial = pt.into();
                p.label = "serial_mismatch".into();
                p
            }
        }));
        // non-final packets inside the pending query (F6: the query used to be given up mid-exchange)
        // a slow but healthy terminal: every packet within 10 s of the previous one, a card reading as a
        // whole well inside the configured time - below any sensible time-out policy (the properties fix
        // no time-out values): no failure, so no reconnect, no resend
        fams.push(Family::new("slow_but_healthy_terminal", 5 * 3, true, {
            let wl = wl.clone();
            move |i, _| {
                let mut p = ClientPlan::plain(wl[(i % 5) as usize].clone());
                p.cfg.max_tx = 2;
                if i / 5 == 2 {
                    // the card-reading time configured short, no card read in the history: the other
                    // exchanges take as long as they take (their time-outs are not the card reading's)
                    p.ops.retain(|o| !matches!(o, OpSpec::ReadCard { .. }));
                    p.cfg.read_card_timeout = 1;
                    p.pt.pace_ms = 5_000;
                } else if i / 5 == 0 {
                    p.cfg.read_card_timeout = 15;
                    p.pt.pace_ms = 5_000;
                } else {
                    p.cfg.read_card_timeout = 60;
                    p.pt.pace_ms = 7_000;
                }
                p.label = "slow".into();
                p
            }
        }));
        // silence at every point of a card reading with the configured time at its extremes
        {
            let ops = vec![card_op(), card_op()];
            let pts = dry_points(&ops, 1);
            // (the calls' emission points start behind Feig::new's twelve - if the client under test does its
            // configuration there at all)
            let first: u16 = if pts > 12 { 13 } else { 1 };
            fams.push(Family::new("silence_in_card_reading_with_timeout_extremes", (pts as u64 + 1 - first as u64) * 4 * 2, true, move |i, _| {
                let mut p = ClientPlan::plain(ops.clone());
                p.cfg.read_card_timeout = [0u8, 1, 254, 255][(i % 4) as usize];
                let kind = if (i / 4) % 2 == 0 { FaultKind::Silence } else { FaultKind::StallMid(2) };
                p.faults = vec![FaultSpec { conn: 0, point: first + (i / 8) as u16, kind }];
                p.label = "single/silence_tau".into();
                p
            }));
        }
        // an exchange the terminal ends with an abort has completed normally, whatever the code and
        // whatever the client makes of it ('receiver not ready' at end-of-day is even tolerated): the
        // connection is kept and the next call goes out on it
        fams.push(Family::new("aborted_exchange_keeps_the_connection", 6 * 4, true, |i, _| {
            let code = [0xa0u8, 0x6c, 0xb8, 0x64][(i % 4) as usize];
            let eod_abort = CleanupSpec { eod: EodOutcome { pre: 0, status: false, prints: 0, end: EndSpec::Abort(code) }, ..CleanupSpec::plain() };
            let rev_abort = RevOutcome { pre: 0, status: false, prints: 0, end: EndSpec::Abort(code) };
            let ops = match i / 4 {
                0 => vec![begin("A"), OpSpec::Commit { token: "A".into(), amount: 1000, rev: RevOutcome::success(), cleanup: eod_abort }, card_op(), begin("B")],
                1 => vec![begin("A"), OpSpec::Cancel { token: "A".into(), rev: RevOutcome::success(), cleanup: eod_abort }, card_op()],
                2 => vec![OpSpec::Configure { out: ConfigureOutcome { cleanup: eod_abort, ..ConfigureOutcome::plain() } }, card_op()],
                3 => vec![begin("A"), OpSpec::Commit { token: "A".into(), amount: 1000, rev: rev_abort, cleanup: CleanupSpec::plain() }, card_op()],
                4 => vec![OpSpec::Begin { token: "A".into(), res: ResOutcome { pre: 1, status: StatusMode::WithReceipt, prints: 0, end: EndSpec::Abort(code) } }, card_op(), begin("B")],
                _ => vec![OpSpec::ReadCard { card: CardOutcome { pre: 1, kind: CardKind::Abort(code), delay_ms: 0 } }, card_op(), begin("A")],
            };
            let mut p = ClientPlan::plain(ops);
            p.cfg.max_tx = 2;
            // (the status information of an aborted reservation already shows the result code: the exchange
            // still runs to its end - the abort packet is read and acknowledged - before anything else)
            p.pt.status_shows_abort_code = true;
            p.label = "aborted_exchange".into();
            p
        }));
        // the terminal answers the identity request of the handshake with a well-formed abort:
        // on the first connection, and on the replacement connection after a failure
        fams.push(Family::new("identity_request_aborted", 5 * 4 * 3, true, {
            let wl = wl.clone();
            move |i, _| {
                let mut p = ClientPlan::plain(wl[(i % 5) as usize].clone());
                p.cfg.max_tx = 2;
                let code = [0x64u8, 0x83, 0xff, 0x00][((i / 5) % 4) as usize];
                match i / 20 {
                    0 => p.faults = vec![FaultSpec { conn: 0, point: 4, kind: FaultKind::IdentityAbort(code) }],
                    1 => {
                        p.faults = vec![
                            FaultSpec { conn: 0, point: 14, kind: FaultKind::Eof },
                            FaultSpec { conn: 1, point: 4, kind: FaultKind::IdentityAbort(code) },
                        ]
                    }
                    _ => {
                        p.faults = (0..3).map(|c| FaultSpec { conn: c, point: 4, kind: FaultKind::IdentityAbort(code) }).collect();
                    }
                }
                p.label = "identity_abort".into();
                p
            }
        }));
        fams.push(Family::new("pending_query_with_intermediate_status", 4, true, |i, _| {
            let cleanup = CleanupSpec {
                pending_pre: 1 + (i % 2) as u8,
                ..CleanupSpec::plain()
            };
            let mut p = ClientPlan::plain(vec![
                begin("A"),
                if i < 2 {
                    OpSpec::Commit {
                        token: "A".into(),
                        amount: 1000,
                        rev: RevOutcome::success(),
                        cleanup,
                    }
                } else {
                    OpSpec::Cancel {
                        token: "A".into(),
                        rev: RevOutcome::success(),
                        cleanup,
                    }
                },
                card_op(),
            ]);
            p.label = "pending_pre".into();
            p
        }));
        let n = match tier {
            Tier::Quick => 150_000,
            Tier::Thorough => 5_000_000,
        };
        fams.push(Family::new("multi_fault_random", n, false, |_, rng| random_faulty_plan(rng)));
        fams
    }

    fn run(&self, plan: &ClientPlan, want_trace: bool) -> RunOut {
        let mut out = RunOut::new();
        let run = client::run(plan);
        judge_faulty(plan, &run, &mut out);
        // a run in which nothing went wrong is also held to the exact model
        let fault_free = plan.faults.is_empty()
            && plan.connects.iter().all(|c| matches!(c, ConnectSpec::Ok | ConnectSpec::DelayMs(_)))
            && !serial_mismatch(plan);
        if fault_free {
            // (the other properties' rules of the exact model are their own checks' business; what C09
            // needs from a run without faults - calls succeed, no reconnect - is R3/R5 above and the line below)
            for (prop, v) in judge_fault_free(plan, &run).v {
                if prop == "*" {
                    out.violations.push(v);
                }
            }
            let odd_abort = run.pt.lock().unwrap().requests.iter().any(|r| r.abort_sent.map(|c| !business_abort(c)).unwrap_or(false));
            if run.conns.len() > 1 && !odd_abort {
                out.fail("needless_reconnect", "r3/fault_free", format!("{} connections were opened in a run without any fault", run.conns.len()));
            }
        }
        run.add_stats(&mut out.stats);
        out.trace_hash = run.trace_hash();
        out.shape = shape_of(plan, &run);
        out.nontrivial = !plan.faults.is_empty() || !plan.connects.is_empty();
        if want_trace {
            out.trace = run.trace();
        }
        out
    }

    fn shrink(&self, plan: &ClientPlan) -> Vec<ClientPlan> {
        shrink_client_plan(plan)
    }

    fn rule_text(&self) -> String {
        "one run = real Feig::new + 2-5 public calls against the simulated terminal with faults from the plan; single-fault tier: every emission point of connection 0 (handshake, Feig::new's configure, every exchange of 5 workloads — points discovered by a fault-free dry run) x {EOF, EOF mid-frame (1 or 2 bytes), ECONNRESET, NACK, foreign control field, undecodable body, junk, silence, stall inside a packet, EPIPE on the client's next write, wrong serial}; the same with a second fault at each handshake point of the retry connection; 0..21 refused connects; serial in other letter case (must be accepted); PRNG multi-fault sequences on connections 0..5 with PRNG schedules; oracle rules R1 vetting, R2 abandon, R2b no stacking, R3 reuse, R4 one connection at a time, R5 recovery over the per-connection event log; distinct = hash of per-call (name, result class, control fields, connection) and fired faults (kind, exchange, ack point); non-trivial = a fault or failed connect was planned".into()
    }
    fn assumptions(&self) -> Vec<String> {
        vec![
            "the terminal answers in lockstep, so once it has emitted a faulty frame (or closed) any later client frame on that connection is a reuse".into(),
            "an abort completes an exchange: the connection is kept".into(),
            "R5 is judged only for state-independent calls (read_card, configure) started after the last fault".into(),
            "no time-out value is baked into the oracle: silence is judged by 'dropped before the next connection opens / the call returns' and by the terminal's no-stacking monitor".into(),
        ]
    }
    fn components_real(&self) -> Vec<&'static str> {
        vec![
            "zvt_feig_terminal::stream (ResetSequence::into_stream_with_retry, outer::inner::connect handshake)",
            "zvt_feig_terminal::feig::Feig",
            "zvt::sequences / zvt::io / codec",
            "tokio time (paused), tokio-stream throttle/take",
        ]
    }
    fn components_stub(&self) -> Vec<&'static str> {
        vec!["TCP socket + connect (SimNet behind the zvt_verif hook)", "payment terminal (stateful model, fault plan)", "clock (tokio paused)"]
    }
    fn expected_probes(&self) -> Vec<&'static str> {
        vec![
            "fault.eof",
            "fault.eof_mid_frame",
            "fault.reset",
            "fault.nack",
            "fault.foreign_cf",
            "fault.bad_body",
            "fault.junk",
            "fault.silence",
            "fault.wrong_serial",
            "fault.epipe_after",
            "fault.stall_mid_frame",
            "fault.connect_refused",
            "probe.wrong_serial_seen",
            "probe.reuse_checked",
            "probe.recovery_checked",
            "probe.retry_budget_exhausted",
            "probe.multi_fault_run",
            "probe.wrong_serial_seen",
        ]
    }
}

pub fn random_faulty_plan(rng: &mut Rng) -> ClientPlan {
    let wl = workloads();
    let mut ops = rng.pick(&wl).clone();
    if rng.pct(50) {
        ops.push(card_op());
    }
    if rng.pct(30) {
        ops.insert(0, card_op());
    }
    let mut p = ClientPlan::plain(ops);
    p.cfg.max_tx = 2;
    let nf = 1 + rng.usize_below(4);
    let q = *rng.pick(&[10u64, 25, 60]);
    for _ in 0..nf {
        let kind = match rng.below(14) {
            13 => FaultKind::ReadErr(rng.below(3) as u8),
            12 => FaultKind::IdentityAbort(rng.next_u64() as u8),
            10 => FaultKind::EpipeAfter,
            11 => FaultKind::StallMid(rng.below(40) as u16),
            0 => FaultKind::Eof,
            1 => FaultKind::EofMid(rng.below(40) as u16),
            2 => FaultKind::Reset,
            3 => FaultKind::Nack(rng.next_u64() as u8),
            4 => {
                let mut cf = (rng.next_u64() as u8, rng.next_u64() as u8);
                // outside every reply set and not an acknowledgement
                while [(0x80, 0x00), (0x06, 0x0f), (0x06, 0x1e), (0x04, 0xff), (0x04, 0x0f), (0x06, 0xd1), (0x06, 0xd3)].contains(&cf) {
                    cf = (rng.next_u64() as u8, rng.next_u64() as u8);
                }
                FaultKind::Foreign(cf.0, cf.1)
            }
            5 => FaultKind::BadBody,
            6 => FaultKind::Junk,
            7 | 8 => FaultKind::Silence,
            _ => FaultKind::WrongSerial,
        };
        let conn = if rng.pct(60) { 0 } else { rng.below(5) as u16 };
        let point = if matches!(kind, FaultKind::WrongSerial | FaultKind::IdentityAbort(_)) { 4 } else { 1 + rng.below(q) as u16 };
        p.faults.push(FaultSpec { conn, point, kind });
    }
    if rng.pct(25) {
        let n = 1 + rng.usize_below(4);
        let at = rng.usize_below(4);
        p.connects = vec![ConnectSpec::Ok; at];
        for _ in 0..n {
            p.connects.push(if rng.pct(80) { ConnectSpec::Refused } else { ConnectSpec::DelayMs(rng.below(5000) as u32) });
        }
    }
    random_transport(&mut p, rng);
    // swarm the configuration: serial (same on both sides, letter case flipped at random), password, currency
    if rng.pct(50) {
        let serial: String = (0..8).map(|_| *rng.pick(&b"0123456789ABCDEFabcdefXYZxyz"[..]) as char).collect();
        p.cfg.serial = serial.clone();
        p.pt.serial = serial
            .chars()
            .map(|c| if rng.pct(40) { if c.is_ascii_lowercase() { c.to_ascii_uppercase() } else { c.to_ascii_lowercase() } } else { c })
            .collect();
        p.cfg.password = rng.below(1_000_000) as u32;
        p.cfg.currency = *rng.pick(&[752u16, 826, 978]);
    }
    // delays stay far below the 60 s / (read_card_timeout + 2) s time-outs
    p.label = "multi".into();
    p
}
