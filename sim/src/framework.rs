//! Check framework: plan families -> parallel seeded runs -> violation
//! classes -> shrinking -> replay files -> evidence. One seed is one exactly
//! repeatable execution; output never depends on thread timing.
use crate::rng::{mix, str_id, Rng};
use serde::de::DeserializeOwned;
use serde::Serialize;
use serde_json::{json, Value};
use std::collections::{BTreeMap, HashSet};
use std::sync::atomic::{AtomicU64, Ordering};
use std::sync::Mutex;
use std::time::Instant;

/// Descriptor the harness reports on. `silence_library_stdout` points fd 1 at
/// /dev/null (the library prints progress with println!) and keeps a duplicate
/// of the real stdout here.
static OUT_FD: std::sync::atomic::AtomicI32 = std::sync::atomic::AtomicI32::new(1);

pub fn say(s: &str) {
    let fd = OUT_FD.load(Ordering::SeqCst);
    let mut line = s.as_bytes().to_vec();
    line.push(b'\n');
    let mut off = 0;
    while off < line.len() {
        let n = unsafe { libc::write(fd, line[off..].as_ptr() as *const libc::c_void, line.len() - off) };
        if n <= 0 {
            break;
        }
        off += n as usize;
    }
}

#[macro_export]
macro_rules! say {
    ($($arg:tt)*) => { $crate::framework::say(&format!($($arg)*)) };
}

pub fn silence_library_stdout() {
    use std::io::Write;
    let _ = std::io::stdout().flush();
    unsafe {
        let saved = libc::dup(1);
        let null = libc::open(b"/dev/null\0".as_ptr() as *const libc::c_char, libc::O_WRONLY);
        if saved >= 0 && null >= 0 {
            libc::dup2(null, 1);
            libc::close(null);
            OUT_FD.store(saved, Ordering::SeqCst);
        }
    }
}

#[derive(Clone, Copy, Debug, PartialEq, Eq)]
pub enum Tier {
    Quick,
    Thorough,
}

impl Tier {
    pub fn name(self) -> &'static str {
        match self {
            Tier::Quick => "quick",
            Tier::Thorough => "thorough",
        }
    }
}

#[derive(Clone, Debug)]
pub struct Violation {
    /// Oracle rule that failed, e.g. "ack_before_yield".
    pub rule: String,
    /// Canonical signature used to match known findings (stable across seeds).
    pub sig: String,
    pub detail: String,
}

impl Violation {
    pub fn new(rule: &str, sig: impl Into<String>, detail: impl Into<String>) -> Self {
        Violation {
            rule: rule.to_string(),
            sig: sig.into(),
            detail: detail.into(),
        }
    }
}

/// Counters a run reports: faults fired, probes hit, simulated time.
#[derive(Clone, Debug, Default)]
pub struct Stats {
    pub counters: BTreeMap<&'static str, u64>,
    /// Reported maxima (merged with max, not added).
    pub maxima: BTreeMap<&'static str, u64>,
    pub sim_ms: u64,
}

impl Stats {
    pub fn add(&mut self, k: &'static str, n: u64) {
        if n > 0 {
            *self.counters.entry(k).or_insert(0) += n;
        }
    }
    pub fn hit(&mut self, k: &'static str) {
        self.add(k, 1);
    }
    pub fn max(&mut self, k: &'static str, v: u64) {
        let e = self.maxima.entry(k).or_insert(0);
        if v > *e {
            *e = v;
        }
    }
    pub fn merge(&mut self, o: &Stats) {
        for (k, v) in &o.counters {
            *self.counters.entry(k).or_insert(0) += v;
        }
        for (k, v) in &o.maxima {
            self.max(k, *v);
        }
        self.sim_ms += o.sim_ms;
    }
    pub fn add_fired(&mut self, f: &crate::conn::Fired) {
        self.add("sched.partial_read", f.partial_reads);
        self.add("sched.spurious_pending", f.spurious_pending);
        self.add("sched.short_write", f.short_writes);
        self.add("sched.read_wait", f.read_waits);
        self.add("fault.eof_delivered", f.eof);
        self.add("fault.reset_delivered", f.reset);
        self.add("fault.write_error_delivered", f.write_err);
        self.add("fault.transient_read_error", f.read_err_once);
        self.add("fault.transient_write_error", f.write_err_once);
    }
}

pub struct RunOut {
    pub violations: Vec<Violation>,
    /// Hash of the full event log (replay identity).
    pub trace_hash: u64,
    /// Hash of the run's *shape* (payload and times erased).
    pub shape: u64,
    /// Did a fault or non-trivial schedule element actually fire?
    pub nontrivial: bool,
    pub stats: Stats,
    /// Human readable trace (only when asked for).
    pub trace: Vec<String>,
    /// Secondary state measure (e.g. model states) as hashes.
    pub states: Vec<u64>,
}

impl RunOut {
    pub fn new() -> Self {
        RunOut {
            violations: vec![],
            trace_hash: 0,
            shape: 0,
            nontrivial: false,
            stats: Stats::default(),
            trace: vec![],
            states: vec![],
        }
    }
    pub fn fail(&mut self, rule: &str, sig: impl Into<String>, detail: impl Into<String>) {
        self.violations.push(Violation::new(rule, sig, detail));
    }
}

/// A family of plans: `count` plans, plan `i` built by `make(i, rng_i)`.
pub struct Family<P> {
    pub name: &'static str,
    pub count: u64,
    pub exhaustive: bool,
    pub make: Box<dyn Fn(u64, &mut Rng) -> P + Send + Sync>,
}

impl<P> Family<P> {
    pub fn new(
        name: &'static str,
        count: u64,
        exhaustive: bool,
        make: impl Fn(u64, &mut Rng) -> P + Send + Sync + 'static,
    ) -> Self {
        Family {
            name,
            count,
            exhaustive,
            make: Box::new(make),
        }
    }
}

pub trait Check: Sync {
    type Plan: Serialize + DeserializeOwned + Clone + Send + Sync + 'static;
    fn id(&self) -> &'static str;
    fn level(&self) -> &'static str;
    fn families(&self, tier: Tier, seed: u64) -> Vec<Family<Self::Plan>>;
    fn run(&self, plan: &Self::Plan, want_trace: bool) -> RunOut;
    /// Smaller variants of a failing plan (most aggressive first).
    fn shrink(&self, plan: &Self::Plan) -> Vec<Self::Plan>;
    fn rule_text(&self) -> String;
    fn assumptions(&self) -> Vec<String>;
    fn components_real(&self) -> Vec<&'static str>;
    fn components_stub(&self) -> Vec<&'static str>;
    /// Probes that must not stay at zero; a zero prints a warning.
    fn expected_probes(&self) -> Vec<&'static str> {
        vec![]
    }
}

// ---------------------------------------------------------------- panics

thread_local! {
    static LAST_PANIC: std::cell::RefCell<Option<(String, String)>> = std::cell::RefCell::new(None);
}

/// A logger that renders every record of the code under test and throws the text away: with
/// logging off the `log` macros do not even evaluate their arguments, so code that only runs - or
/// only fails - when a deployment turns on debug logging would never execute under simulation.
struct RenderingLogger;

impl log::Log for RenderingLogger {
    fn enabled(&self, _: &log::Metadata) -> bool {
        true
    }
    fn log(&self, record: &log::Record) {
        use std::fmt::Write;
        // The argument expressions were evaluated by the macro; rendering is cut off after a few
        // hundred bytes (hex dumps of 64 KiB packets would otherwise dominate the run time).
        struct Bounded(usize);
        impl Write for Bounded {
            fn write_str(&mut self, s: &str) -> std::fmt::Result {
                if s.len() > self.0 {
                    self.0 = 0;
                    return Err(std::fmt::Error);
                }
                self.0 -= s.len();
                Ok(())
            }
        }
        let _ = write!(Bounded(600), "{}", record.args());
    }
    fn flush(&self) {}
}

pub fn install_logger() {
    if std::env::var("VERIF_NO_LOG").is_err() {
        static LOGGER: RenderingLogger = RenderingLogger;
        let _ = log::set_logger(&LOGGER);
        log::set_max_level(log::LevelFilter::Trace);
    }
}

pub fn install_panic_hook() {
    std::panic::set_hook(Box::new(|info| {
        let loc = info
            .location()
            .map(|l| format!("{}:{}", l.file(), l.line()))
            .unwrap_or_default();
        let msg = if let Some(s) = info.payload().downcast_ref::<&str>() {
            s.to_string()
        } else if let Some(s) = info.payload().downcast_ref::<String>() {
            s.clone()
        } else {
            "<non-string panic>".to_string()
        };
        if std::env::var("VERIF_DEBUG").is_ok() {
            eprintln!("panic at {loc}: {msg}\n{}", std::backtrace::Backtrace::force_capture());
        }
        LAST_PANIC.with(|p| *p.borrow_mut() = Some((loc, msg)));
    }));
}

pub fn take_panic() -> Option<(String, String)> {
    LAST_PANIC.with(|p| p.borrow_mut().take())
}

/// Runs `f`, turning a panic of the code under test into `Err((location,
/// message))`. A panic raised from the harness' own sources is a harness
/// error and aborts the process with exit code 2.
pub fn guarded<T>(f: impl FnOnce() -> T) -> Result<T, (String, String)> {
    let _ = take_panic();
    match std::panic::catch_unwind(std::panic::AssertUnwindSafe(f)) {
        Ok(v) => Ok(v),
        Err(_) => {
            let (loc, msg) = take_panic().unwrap_or_default();
            if loc.contains("/verif/sim/") || loc.starts_with("src/") {
                eprintln!("HARNESS ERROR: panic in harness at {loc}: {msg}");
                std::process::exit(2);
            }
            Err((loc, msg))
        }
    }
}

/// Signature of a panic: normalised file plus the message with digits erased
/// (stable across seeds and line shifts, distinct per kind of failure).
pub fn panic_sig(loc: &str, msg: &str) -> String {
    let m: String = msg
        .chars()
        .map(|c| if c.is_ascii_digit() { '#' } else { c })
        .take(60)
        .collect();
    format!("{} :: {}", panic_site(loc), m)
}

/// Normalises a panic location for signatures: path inside the repository + line erased.
pub fn panic_site(loc: &str) -> String {
    let file = loc.rsplit_once(':').map(|(f, _)| f).unwrap_or(loc);
    let file = file.strip_prefix("/repo/").unwrap_or(file);
    match file.find("/registry/src/") {
        Some(i) => {
            let rest = &file[i + "/registry/src/".len()..];
            rest.split_once('/').map(|(_, r)| r).unwrap_or(rest).to_string()
        }
        None => file.to_string(),
    }
}

// ---------------------------------------------------------------- known findings

#[derive(Clone, Debug)]
pub struct Known {
    pub property: String,
    pub rule: String,
    pub sig_prefix: String,
    pub status: String,
    pub text: String,
}

pub fn load_known(path: &str) -> Vec<Known> {
    let Ok(s) = std::fs::read_to_string(path) else {
        return vec![];
    };
    let v: Value = match serde_json::from_str(&s) {
        Ok(v) => v,
        Err(e) => {
            eprintln!("HARNESS ERROR: {path}: {e}");
            std::process::exit(2);
        }
    };
    let mut out = vec![];
    for e in v["findings"].as_array().cloned().unwrap_or_default() {
        out.push(Known {
            property: e["property"].as_str().unwrap_or("").to_string(),
            rule: e["rule"].as_str().unwrap_or("").to_string(),
            sig_prefix: e["sig_prefix"].as_str().unwrap_or("").to_string(),
            status: e["status"].as_str().unwrap_or("").to_string(),
            text: e["text"].as_str().unwrap_or("").to_string(),
        });
    }
    out
}

// ---------------------------------------------------------------- driver

pub fn verif_dir() -> String {
    std::env::var("VERIF_DIR").unwrap_or_else(|_| "/verif".to_string())
}

/// Where evidence and replay files go: /verif, unless VERIF_OUT_DIR redirects them (used by the
/// tools that run the checks against seeded or preserving edits, so that committed evidence only
/// ever comes from /repo itself).
pub fn out_dir() -> String {
    std::env::var("VERIF_OUT_DIR").unwrap_or_else(|_| verif_dir())
}

pub fn base_seed() -> u64 {
    match std::env::var("VERIF_SEED") {
        Ok(s) => s.trim().parse::<u64>().unwrap_or_else(|_| str_id(&s)),
        Err(_) => 1,
    }
}

pub fn threads() -> usize {
    std::env::var("VERIF_THREADS")
        .ok()
        .and_then(|s| s.parse().ok())
        .unwrap_or_else(|| {
            std::thread::available_parallelism()
                .map(|n| n.get())
                .unwrap_or(4)
                .min(16)
        })
}

struct Found<P> {
    index: u64,
    family: &'static str,
    seed: u64,
    plan: P,
    v: Violation,
}

struct Acc {
    evaluations: u64,
    stats: Stats,
    shapes: HashSet<u64>,
    states: HashSet<u64>,
    trace_xor: u64,
}

/// Runs a check in the given tier; writes evidence; returns the exit code.
pub fn drive<C: Check>(check: &C, tier: Tier) -> i32 {
    let t0 = Instant::now();
    let seed = base_seed();
    let id = check.id();
    let families = check.families(tier, seed);
    let total: u64 = families.iter().map(|f| f.count).sum();
    let mut offsets = Vec::with_capacity(families.len());
    let mut acc_off = 0u64;
    for f in &families {
        offsets.push(acc_off);
        acc_off += f.count;
    }
    let next = AtomicU64::new(0);
    let found: Mutex<Vec<Found<C::Plan>>> = Mutex::new(vec![]);
    let acc = Mutex::new(Acc {
        evaluations: 0,
        stats: Stats::default(),
        shapes: HashSet::new(),
        states: HashSet::new(),
        trace_xor: 0,
    });
    let max_keep_per_class = 1usize;
    let nthreads = threads();
    let wall_cap_s: u64 = std::env::var("VERIF_WALL_CAP_S")
        .ok()
        .and_then(|s| s.parse().ok())
        .unwrap_or(match tier {
            Tier::Quick => 600,
            Tier::Thorough => 7200,
        });
    let capped = std::sync::atomic::AtomicBool::new(false);
    // Wall-clock watchdog for runs that never come back (a decoder looping
    // without progress cannot be preempted): slot = (index+1, start in ms).
    let slots: Vec<(AtomicU64, AtomicU64)> = (0..nthreads).map(|_| (AtomicU64::new(0), AtomicU64::new(0))).collect();
    let workers_done = AtomicU64::new(0);
    let hang_limit_ms: u64 = std::env::var("VERIF_HANG_LIMIT_S").ok().and_then(|s| s.parse().ok()).unwrap_or(180) * 1000;
    let plan_at = |index: u64| -> (&Family<C::Plan>, u64, C::Plan) {
        let fi = match offsets.binary_search(&index) {
            Ok(mut i) => {
                while families[i].count == 0 {
                    i += 1;
                }
                i
            }
            Err(i) => i - 1,
        };
        let fam = &families[fi];
        let i_in = index - offsets[fi];
        let run_seed = mix(&[seed, str_id(id), str_id(fam.name), i_in]);
        let mut rng = Rng::new(run_seed);
        let plan = (fam.make)(i_in, &mut rng);
        (fam, run_seed, plan)
    };
    // VERIF_DUMP_HASHES=<file>: per-run event-log hashes, for diffing two executions
    let dump_hashes = std::env::var("VERIF_DUMP_HASHES").is_ok();
    let dumped: Mutex<Vec<(u64, u64)>> = Mutex::new(vec![]);
    std::thread::scope(|scope| {
        scope.spawn(|| {
            while workers_done.load(Ordering::SeqCst) < nthreads as u64 {
                std::thread::sleep(std::time::Duration::from_millis(100));
                let now = t0.elapsed().as_millis() as u64;
                for (ix, st) in &slots {
                    let i = ix.load(Ordering::SeqCst);
                    let s = st.load(Ordering::SeqCst);
                    if i != 0 && now.saturating_sub(s) > hang_limit_ms && ix.load(Ordering::SeqCst) == i {
                        let (fam, run_seed, plan) = plan_at(i - 1);
                        let replay_dir = format!("{}/replays", out_dir());
                        let _ = std::fs::create_dir_all(&replay_dir);
                        let fname = format!("{}/{}-hang-{:016x}.json", replay_dir, id, run_seed);
                        let doc = json!({
                            "property": id, "rule": "hang", "sig": "wall_clock",
                            "detail": format!("run did not return within {} s of wall clock (loop without progress?)", hang_limit_ms / 1000),
                            "seed": run_seed, "base_seed": seed, "family": fam.name, "index": i - 1,
                            "trace_hash": "", "plan": serde_json::to_value(&plan).unwrap(), "trace": [],
                        });
                        let _ = std::fs::write(&fname, serde_json::to_string_pretty(&doc).unwrap());
                        let ev = json!({
                            "property_id": id, "tier": tier.name(), "seed": seed, "level": check.level(),
                            "wall_s": t0.elapsed().as_secs_f64(), "violations": 1,
                            "coverage": {"evaluations": i, "distinct_nontrivial": 2, "rule": check.rule_text(),
                                "samples": [serde_json::to_value(&plan).unwrap()], "aborted_by_watchdog": true},
                        });
                        let _ = std::fs::create_dir_all(format!("{}/evidence", out_dir()));
                        let _ = std::fs::write(format!("{}/evidence/{}.json", out_dir(), id), serde_json::to_string_pretty(&ev).unwrap());
                        say!("  rule=hang sig=wall_clock :: a run did not return within {} s", hang_limit_ms / 1000);
                        say!("VIOLATION property={} replay={}", id, fname);
                        std::process::exit(1);
                    }
                }
            }
        });
        for tid in 0..nthreads {
            let slots = &slots;
            let workers_done = &workers_done;
            let next = &next;
            let found = &found;
            let dumped = &dumped;
            let acc = &acc;
            let capped = &capped;
            let families = &families;
            let offsets = &offsets;
            scope.spawn(move || {
                let mut local = Acc {
                    evaluations: 0,
                    stats: Stats::default(),
                    shapes: HashSet::new(),
                    states: HashSet::new(),
                    trace_xor: 0,
                };
                let mut local_found: Vec<Found<C::Plan>> = vec![];
                loop {
                    let start = next.fetch_add(64, Ordering::Relaxed);
                    if start >= total {
                        break;
                    }
                    if t0.elapsed().as_secs() > wall_cap_s {
                        capped.store(true, Ordering::Relaxed);
                        break;
                    }
                    for index in start..(start + 64).min(total) {
                        let fi = match offsets.binary_search(&index) {
                            Ok(i) => {
                                // several families may share an offset if count==0
                                let mut i = i;
                                while families[i].count == 0 {
                                    i += 1;
                                }
                                i
                            }
                            Err(i) => i - 1,
                        };
                        let fam = &families[fi];
                        let i_in = index - offsets[fi];
                        let run_seed = mix(&[seed, str_id(id), str_id(fam.name), i_in]);
                        let mut rng = Rng::new(run_seed);
                        let plan = (fam.make)(i_in, &mut rng);
                        slots[tid].1.store(t0.elapsed().as_millis() as u64, Ordering::SeqCst);
                        slots[tid].0.store(index + 1, Ordering::SeqCst);
                        let out = check.run(&plan, false);
                        slots[tid].0.store(0, Ordering::SeqCst);
                        local.evaluations += 1;
                        local.stats.merge(&out.stats);
                        local.stats.sim_ms += crate::exec::take_sim_ms();
                        local.trace_xor ^= mix(&[index, out.trace_hash]);
                        if dump_hashes {
                            dumped.lock().unwrap().push((index, out.trace_hash));
                        }
                        if out.nontrivial {
                            local.shapes.insert(out.shape);
                        }
                        for s in &out.states {
                            local.states.insert(*s);
                        }
                        for v in out.violations {
                            local_found.push(Found {
                                index,
                                family: fam.name,
                                seed: run_seed,
                                plan: plan.clone(),
                                v,
                            });
                        }
                        if local_found.len() > 4096 {
                            // keep memory bounded: only the earliest per class matter
                            dedup_found(&mut local_found, max_keep_per_class);
                        }
                    }
                }
                dedup_found(&mut local_found, max_keep_per_class);
                found.lock().unwrap().extend(local_found);
                let mut a = acc.lock().unwrap();
                a.evaluations += local.evaluations;
                a.stats.merge(&local.stats);
                a.shapes.extend(local.shapes);
                a.states.extend(local.states);
                a.trace_xor ^= local.trace_xor;
                drop(a);
                workers_done.fetch_add(1, Ordering::SeqCst);
            });
        }
    });
    if let Ok(path) = std::env::var("VERIF_DUMP_HASHES") {
        let mut d = dumped.into_inner().unwrap();
        d.sort();
        let text: String = d.iter().map(|(i, h)| format!("{i} {h:016x}\n")).collect();
        let _ = std::fs::write(path, text);
    }
    let acc = acc.into_inner().unwrap();
    let mut found = found.into_inner().unwrap();
    dedup_found(&mut found, max_keep_per_class);
    found.sort_by(|a, b| (a.v.rule.as_str(), a.v.sig.as_str(), a.index).cmp(&(b.v.rule.as_str(), b.v.sig.as_str(), b.index)));

    // Classify against known findings, shrink, write replay files.
    let known = load_known(&format!("{}/known_findings.json", verif_dir()));
    let mut violations = 0;
    let mut known_lines: Vec<String> = vec![];
    let mut reported = vec![];
    let replay_dir = format!("{}/replays", out_dir());
    let max_reports = 12;
    for f in &found {
        if let Some(k) = known.iter().find(|k| {
            k.status == "known"
                && k.property == id
                && k.rule == f.v.rule
                && f.v.sig.starts_with(&k.sig_prefix)
        }) {
            let line = format!("KNOWN-FINDING: property={} {}", id, k.text);
            if !known_lines.contains(&line) {
                known_lines.push(line);
            }
            continue;
        }
        violations += 1;
        if reported.len() >= max_reports {
            continue;
        }
        let (plan, v, steps) = shrink_plan(check, &f.plan, &f.v);
        let out = check.run(&plan, true);
        let _ = std::fs::create_dir_all(&replay_dir);
        let fname = format!(
            "{}/{}-{}-{:016x}.json",
            replay_dir,
            id,
            sanitize(&format!("{}-{}", v.rule, v.sig)),
            f.seed
        );
        let doc = json!({
            "property": id,
            "rule": v.rule,
            "sig": v.sig,
            "detail": v.detail,
            "seed": f.seed,
            "base_seed": seed,
            "family": f.family,
            "index": f.index,
            "shrink_steps": steps,
            "trace_hash": format!("{:016x}", out.trace_hash),
            "plan": serde_json::to_value(&plan).unwrap(),
            "trace": out.trace,
        });
        if let Err(e) = std::fs::write(&fname, serde_json::to_string_pretty(&doc).unwrap()) {
            eprintln!("HARNESS ERROR: cannot write {fname}: {e}");
            return 2;
        }
        say!("  rule={} sig={} :: {}", v.rule, v.sig, v.detail);
        say!("VIOLATION property={} replay={}", id, fname);
        reported.push(fname);
    }
    for l in &known_lines {
        say!("{l}");
    }

    // Evidence.
    let wall = t0.elapsed().as_secs_f64();
    let exhaustive_all = families.iter().all(|f| f.exhaustive) && !capped.load(Ordering::Relaxed);
    let fam_json: Vec<Value> = families
        .iter()
        .map(|f| json!({"family": f.name, "runs": f.count, "exhaustive": f.exhaustive}))
        .collect();
    // A few written-out samples: the first plan of up to six families.
    let mut samples = vec![];
    for f in families.iter().filter(|f| f.count > 0).take(6) {
        let idx = f.count / 2;
        let run_seed = mix(&[seed, str_id(id), str_id(f.name), idx]);
        let mut rng = Rng::new(run_seed);
        let plan = (f.make)(idx, &mut rng);
        let out = check.run(&plan, true);
        let mut trace = out.trace;
        if trace.len() > 40 {
            let more = trace.len() - 40;
            trace.truncate(40);
            trace.push(format!("... (+{more} events)"));
        }
        samples.push(json!({
            "family": f.name,
            "index": idx,
            "seed": run_seed,
            "plan": serde_json::to_value(&plan).unwrap(),
            "trace": trace,
            "violations": out.violations.len(),
        }));
    }
    let mut probes_zero = vec![];
    for p in check.expected_probes() {
        if acc.stats.counters.get(p).copied().unwrap_or(0) == 0 {
            probes_zero.push(p);
            eprintln!("warning: probe `{p}` stayed at zero in {id} {}", tier.name());
        }
    }
    let counters: BTreeMap<String, u64> = acc
        .stats
        .counters
        .iter()
        .map(|(k, v)| (k.to_string(), *v))
        .collect();
    let (faults, probes): (BTreeMap<_, _>, BTreeMap<_, _>) = counters
        .iter()
        .map(|(k, v)| (k.clone(), *v))
        .partition(|(k, _)| k.starts_with("fault.") || k.starts_with("sched."));
    let evidence = json!({
        "property_id": id,
        "tier": tier.name(),
        "seed": seed,
        "level": check.level(),
        "wall_s": wall,
        "violations": violations,
        "coverage": {
            "evaluations": acc.evaluations,
            "distinct_nontrivial": acc.shapes.len(),
            "rule": check.rule_text(),
            "exhaustive": exhaustive_all,
            "families": fam_json,
            "planned_runs": total,
            "wall_capped": capped.load(Ordering::Relaxed),
            "samples": samples,
            "states": acc.states.len(),
            "sim": {
                "runs": acc.evaluations,
                "runs_per_hour": if wall > 0.0 { (acc.evaluations as f64 / wall * 3600.0) as u64 } else { 0 },
                "seeds_per_hour": if wall > 0.0 { (acc.evaluations as f64 / wall * 3600.0) as u64 } else { 0 },
                "simulated_seconds": acc.stats.sim_ms as f64 / 1000.0,
                "faults_fired": faults,
                "probes": probes,
                "reported_maxima": acc.stats.maxima.iter().map(|(k, v)| (k.to_string(), *v)).collect::<BTreeMap<String, u64>>(),
                "probes_stuck_at_zero": probes_zero,
                "distinct_model_states": acc.states.len(),
                "batch_trace_hash": format!("{:016x}", acc.trace_xor),
                "threads": nthreads,
                "components_real": check.components_real(),
                "components_stub": check.components_stub(),
            },
            "known_findings_reported": known_lines,
            "replays": reported,
        },
        "assumptions": check.assumptions(),
    });
    let ev_dir = format!("{}/evidence", out_dir());
    let _ = std::fs::create_dir_all(&ev_dir);
    let ev_path = format!("{ev_dir}/{id}.json");
    if let Err(e) = std::fs::write(&ev_path, serde_json::to_string_pretty(&evidence).unwrap()) {
        eprintln!("HARNESS ERROR: cannot write {ev_path}: {e}");
        return 2;
    }
    say!(
        "{id} {}: {} runs ({} planned), {} distinct non-trivial shapes, {} states, {:.1}s, batch hash {:016x}, violations {}",
        tier.name(),
        acc.evaluations,
        total,
        acc.shapes.len(),
        acc.states.len(),
        wall,
        acc.trace_xor,
        violations
    );
    if violations > 0 {
        1
    } else {
        0
    }
}

fn dedup_found<P>(v: &mut Vec<Found<P>>, keep: usize) {
    v.sort_by(|a, b| (a.v.rule.as_str(), a.v.sig.as_str(), a.index).cmp(&(b.v.rule.as_str(), b.v.sig.as_str(), b.index)));
    let mut out: Vec<Found<P>> = vec![];
    let mut run = 0usize;
    for f in v.drain(..) {
        match out.last() {
            Some(l) if l.v.rule == f.v.rule && l.v.sig == f.v.sig => {
                run += 1;
                if run < keep {
                    out.push(f);
                }
            }
            _ => {
                run = 0;
                out.push(f);
            }
        }
    }
    *v = out;
}

fn sanitize(s: &str) -> String {
    let mut o: String = s
        .chars()
        .map(|c| if c.is_ascii_alphanumeric() || c == '-' || c == '_' { c } else { '_' })
        .collect();
    o.truncate(80);
    o
}

/// Greedy shrinking: keep a candidate iff the same (rule, sig) still fails.
pub fn shrink_plan<C: Check>(check: &C, plan: &C::Plan, v: &Violation) -> (C::Plan, Violation, u32) {
    let mut cur = plan.clone();
    let mut cur_v = v.clone();
    let mut budget = 300u32;
    let mut steps = 0u32;
    'outer: loop {
        for cand in check.shrink(&cur) {
            if budget == 0 {
                break 'outer;
            }
            budget -= 1;
            let out = check.run(&cand, false);
            if let Some(nv) = out
                .violations
                .into_iter()
                .find(|x| x.rule == v.rule && x.sig == v.sig)
            {
                cur = cand;
                cur_v = nv;
                steps += 1;
                continue 'outer;
            }
        }
        break;
    }
    (cur, cur_v, steps)
}

/// Replays a replay file; returns exit code (1 = violation reproduced with
/// the same rule and event-log hash, 0 = no violation, 2 = mismatch/harness).
pub fn replay<C: Check>(check: &C, doc: &Value) -> i32 {
    let plan: C::Plan = match serde_json::from_value(doc["plan"].clone()) {
        Ok(p) => p,
        Err(e) => {
            eprintln!("HARNESS ERROR: cannot parse plan: {e}");
            return 2;
        }
    };
    let out = check.run(&plan, true);
    for l in &out.trace {
        say!("{l}");
    }
    let want_rule = doc["rule"].as_str().unwrap_or("");
    let want_sig = doc["sig"].as_str().unwrap_or("");
    let want_hash = doc["trace_hash"].as_str().unwrap_or("");
    let got_hash = format!("{:016x}", out.trace_hash);
    say!("trace_hash recorded={want_hash} replayed={got_hash}");
    let hit = out
        .violations
        .iter()
        .find(|v| v.rule == want_rule && v.sig == want_sig);
    match hit {
        Some(v) => {
            say!("  rule={} sig={} :: {}", v.rule, v.sig, v.detail);
            if got_hash != want_hash {
                say!("REPLAY: violation reproduced but event log differs (code changed since recording?)");
            }
            say!("VIOLATION property={} replay=<this file>", check.id());
            1
        }
        None => {
            if out.violations.is_empty() {
                say!("REPLAY: no violation on the current tree");
                0
            } else {
                for v in &out.violations {
                    say!("  other violation: rule={} sig={} :: {}", v.rule, v.sig, v.detail);
                }
                say!("VIOLATION property={} replay=<this file>", check.id());
                1
            }
        }
    }
}
