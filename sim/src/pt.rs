//! The simulated payment terminal of the client engine: a stateful model of a
//! Feig cVEND (registration, identity, pre-authorisation ledger, receipt
//! counter, pending query, end-of-day, read-card), speaking through the
//! independent reference codec. It is the environment, not the subject: every
//! outcome and every fault it produces comes from the plan.
use crate::conn::{CloseKind, TermIo, Terminal};
use crate::refcodec::{self as rc, Pkt};
use crate::rng::Rng;
use serde::{Deserialize, Serialize};
use std::collections::{BTreeMap, VecDeque};
use std::sync::{Arc, Mutex};

// ---------------------------------------------------------------- plan types

#[derive(Clone, Copy, Debug, PartialEq, Eq, Serialize, Deserialize)]
pub enum EndSpec {
    Completion,
    Abort(u8),
}

#[derive(Clone, Copy, Debug, PartialEq, Eq, Serialize, Deserialize)]
pub enum StatusMode {
    /// One status information carrying the receipt number.
    WithReceipt,
    /// Two status informations, both carrying the (same) receipt number.
    WithReceiptTwice,
    /// A status information with receipt, then one without.
    WithThenWithout,
    /// Status information without BMP 87.
    NoReceipt,
    /// No status information at all.
    Absent,
}

#[derive(Clone, Debug, PartialEq, Eq, Serialize, Deserialize)]
pub struct ResOutcome {
    pub pre: u8,
    pub status: StatusMode,
    pub prints: u8,
    pub end: EndSpec,
}

impl ResOutcome {
    pub fn success() -> Self {
        ResOutcome {
            pre: 0,
            status: StatusMode::WithReceipt,
            prints: 0,
            end: EndSpec::Completion,
        }
    }
    /// Does the terminal book the pre-authorisation and tell the client its receipt number?
    pub fn issues_receipt(&self) -> bool {
        self.end == EndSpec::Completion
            && matches!(
                self.status,
                StatusMode::WithReceipt | StatusMode::WithReceiptTwice | StatusMode::WithThenWithout
            )
    }
}

#[derive(Clone, Debug, PartialEq, Eq, Serialize, Deserialize)]
pub struct RevOutcome {
    pub pre: u8,
    pub status: bool,
    pub prints: u8,
    pub end: EndSpec,
}

impl RevOutcome {
    pub fn success() -> Self {
        RevOutcome {
            pre: 0,
            status: true,
            prints: 0,
            end: EndSpec::Completion,
        }
    }
}

#[derive(Clone, Copy, Debug, PartialEq, Eq, Serialize, Deserialize)]
pub enum PendingSpec {
    /// 06 1E B8 87 FF FF: nothing pending.
    NoneFfff,
    /// 06 1E B8 without BMP 87.
    NoBmp,
    /// A pre-authorisation of an earlier session is still open: reported with its receipt number.
    Dangling,
    /// The same, with this receipt number (0000 and 9999 are legal BCD receipt numbers).
    DanglingAt(u16),
    /// The same, and the answer also carries the TLV list of ZVT 2.10.1 (tag 23 with 08 entries)
    /// naming the reported receipt and a further one. The client is only held to "the one it
    /// reports" in BMP 87; the listed-only one is not a dangling pre-authorisation for the oracles.
    DanglingWithList,
    /// The same, but the TLV list names only the further receipt, not the one in BMP 87.
    DanglingWithOtherList,
    /// The dangling pre-authorisation carries the receipt number of the oldest *closed* transaction in
    /// the terminal's ledger that is not this call's own (a terminal that started its numbering again
    /// after an end-of-day); with none to reuse: like `Dangling`.
    DanglingReusing,
}

#[derive(Clone, Debug, PartialEq, Eq, Serialize, Deserialize)]
pub struct EodOutcome {
    pub pre: u8,
    pub status: bool,
    pub prints: u8,
    pub end: EndSpec,
}

#[derive(Clone, Debug, PartialEq, Eq, Serialize, Deserialize)]
pub struct CleanupSpec {
    pub pending: PendingSpec,
    /// Non-final packets (intermediate status) inside the pending query.
    pub pending_pre: u8,
    pub cancel: RevOutcome,
    pub eod: EodOutcome,
}

impl CleanupSpec {
    pub fn plain() -> Self {
        CleanupSpec {
            pending: PendingSpec::NoneFfff,
            pending_pre: 0,
            cancel: RevOutcome::success(),
            eod: EodOutcome {
                pre: 0,
                status: false,
                prints: 0,
                end: EndSpec::Completion,
            },
        }
    }
}

#[derive(Clone, Debug, PartialEq, Eq, Serialize, Deserialize)]
pub struct App {
    /// Tag 43 (application id), hex.
    pub aid: Option<String>,
    /// Tag 41 (card type), hex.
    pub ctype: Option<String>,
}

#[derive(Clone, Debug, PartialEq, Eq, Serialize, Deserialize)]
pub enum CardKind {
    Card {
        /// Tag 4C, hex (absent = no UID reported).
        uid: Option<String>,
        /// Tag 60 entries (None = no application list).
        apps: Option<Vec<App>>,
        /// Applications listed only inside tag 62.
        nested_apps: Option<Vec<App>>,
        /// No TLV container at all.
        no_tlv: bool,
    },
    Abort(u8),
    /// A status information whose TLV container (BMP 06) holds exactly these bytes (hex) - for the
    /// no-hang check: elements with length forms the library does not support, cut-short elements,
    /// deep nesting. Nothing about the classification is judged.
    RawTlv(String),
}

#[derive(Clone, Debug, PartialEq, Eq, Serialize, Deserialize)]
pub struct CardOutcome {
    pub pre: u8,
    pub kind: CardKind,
    /// The final status arrives this many ms after the acknowledgement.
    pub delay_ms: u64,
}

#[derive(Clone, Debug, PartialEq, Eq, Serialize, Deserialize)]
pub struct ConfigureOutcome {
    pub set_tid: EndSpec,
    pub init_pre: u8,
    pub init_prints: u8,
    pub init: EndSpec,
    pub sysinfo: EndSpec,
    pub cleanup: CleanupSpec,
}

impl ConfigureOutcome {
    pub fn plain() -> Self {
        ConfigureOutcome {
            set_tid: EndSpec::Completion,
            init_pre: 0,
            init_prints: 0,
            init: EndSpec::Completion,
            sysinfo: EndSpec::Completion,
            cleanup: CleanupSpec::plain(),
        }
    }
}

#[derive(Clone, Copy, Debug, PartialEq, Eq, Serialize, Deserialize)]
pub enum FaultKind {
    /// Orderly close instead of the frame.
    Eof,
    /// `n` bytes of the frame, then close.
    EofMid(u16),
    /// Connection reset instead of the frame.
    Reset,
    /// 84 xx 00 instead of the frame.
    Nack(u8),
    /// A well-framed packet with a control field outside every reply set.
    Foreign(u8, u8),
    /// The frame's control field with a body its type cannot decode.
    BadBody,
    /// Raw bytes that are no frame, then silence.
    Junk,
    /// Nothing is emitted on this connection any more.
    Silence,
    /// The identity reply carries another device id (no effect elsewhere).
    WrongSerial,
    /// The frame is emitted normally, but every client write from then on fails (EPIPE).
    EpipeAfter,
    /// `n` bytes of the frame are delivered, then nothing more (stall inside a packet).
    StallMid(u16),
    /// The identity reply is replaced by a well-formed abort `06 1E xx` (no effect elsewhere):
    /// the terminal refuses to say who it is.
    IdentityAbort(u8),
    /// The frame is emitted normally, followed at once by unsolicited bytes: 0 = a complete
    /// intermediate status, 1 = the first byte of a packet, 2 = a header and part of its body,
    /// 3 = an extended header announcing 300 bytes and ten of them. The connection stays open.
    StaleAfter(u8),
    /// The frame is emitted normally; once the exchange it belongs to has completed (the terminal
    /// is idle again) the terminal closes the connection: a clean loss between two exchanges,
    /// which the client can only notice when it next uses the connection.
    CloseIdle,
    /// Instead of the frame, the client's next read fails once with a *transient* error kind
    /// (0 = EINTR, 1 = EAGAIN, 2 = ETIMEDOUT); nothing more comes on this connection. A transport
    /// error all the same: the connection is not to be used again.
    ReadErr(u8),
}

#[derive(Clone, Debug, PartialEq, Eq, Serialize, Deserialize)]
pub struct FaultSpec {
    /// Connection index (in order of successful connects).
    pub conn: u16,
    /// Emission point on that connection: 1 = first frame the terminal emits.
    pub point: u16,
    pub kind: FaultKind,
}

#[derive(Clone, Debug, PartialEq, Eq, Serialize, Deserialize)]
pub struct PtSpec {
    /// Device id reported in the identity reply (8 characters).
    pub serial: String,
    /// Terminal id reported (8 digits).
    pub terminal_id: String,
    pub temperature: String,
    pub receipt_start: u16,
    /// Emit status BMPs in reverse order.
    pub bmp_reversed: bool,
    pub status_seed: u64,
    /// Include card/AID/VU detail fields in status informations.
    pub rich_status: bool,
    /// The terminal stays silent on every connection with this index or higher
    /// (stalls at emission point `dead_point`), for ever.
    #[serde(default)]
    pub dead_from_conn: Option<u16>,
    #[serde(default)]
    pub dead_point: u16,
    /// What the abort of a reservation carries besides its result code (ZVT 2.2.9): 0 nothing,
    /// 1 the currency code, 2 currency + TLV with a one-byte extended error code (1F16),
    /// 3 currency + TLV with a two-byte 1F16 and an error text (1F17), 4 TLV only.
    #[serde(default)]
    pub abort_extras: u8,
    /// Currency code the terminal puts into its status informations (BMP 49) instead of the one the
    /// request named - a terminal booking in its own currency. What the terminal reports must not
    /// replace what the client was configured with.
    #[serde(default)]
    pub status_currency: Option<u16>,
    /// A slow but healthy terminal: every packet other than an acknowledgement leaves this many
    /// milliseconds after the previous one (below the per-packet time-out; their sum may exceed it).
    #[serde(default)]
    pub pace_ms: u32,
    /// Packets arrive in two pieces: the first `.0` bytes, then `.1` milliseconds of nothing, then the
    /// rest (a schedule element, not a fault). `.2` says which packets: 0 = every packet other than an
    /// acknowledgement, 1 = abort packets (06 1E) only, 2 = packets outside the handshake only.
    #[serde(default)]
    pub frame_pause: Option<(u8, u32, u8)>,
    /// Which intermediate status codes the terminal shows: 0 = the usual four, 1 = unusual ones (41,
    /// 4B, 9C, D2 ...), 2 = 00 / FF, 3 = a mix.
    /// 4 + c = every intermediate status shows code c (0..=255).
    #[serde(default)]
    pub status_codes: u16,
    /// Time-out byte (BCD minutes) inside the intermediate statuses; None = absent.
    #[serde(default)]
    pub intermediate_timeout: Option<u8>,
    /// Order of the packets between the acknowledgement and the final packet of a reply script
    /// (intermediate statuses, status information, print packets - a terminal may send them in any
    /// order and grouping): 0 = as built, 1 = reversed, 2 = rotated by one, 3 = interleaved (odd
    /// positions first). The handshake is left alone.
    #[serde(default)]
    pub script_order: u8,
    /// Legal decorations the packet types of the library do not model (they leave them undecoded):
    /// bit 0 = every intermediate status carries a TLV container with display texts (04 FF st [to]
    /// 06 { 24 { 07 .. } }), bit 1 = every plain abort carries a TLV container with an extended error
    /// code and a text behind its result code (06 1E c 06 { 1F16, 1F17 }).
    #[serde(default)]
    pub decorated: u8,
    /// The abort of a reversal (06 23 / 06 25 of a commit / cancel) names a receipt number in BMP 87
    /// (2.10.1 form) that is neither FFFF nor the transaction's own.
    #[serde(default)]
    pub reversal_abort_receipt: Option<u16>,
    /// The terminal (or a bridge in front of it) closes the connection cleanly after every completed
    /// exchange outside the handshake: every further command needs a new connection.
    #[serde(default)]
    pub close_after_each_exchange: bool,
    /// Every frame of a handshake (registration, identity) is this many milliseconds late.
    #[serde(default)]
    pub handshake_pace_ms: u32,
    /// Status informations of transactions carry an additional text (BMP 3C) of this many characters
    /// (up to 999): packets beyond 254 bytes take the extended APDU header.
    #[serde(default)]
    pub long_status_text: u16,
    /// After a negative acknowledgement (fault kinds Nack / BadBody at an acknowledgement point) the
    /// terminal is idle again and serves further commands on that connection.
    #[serde(default)]
    pub nack_keeps_connection: bool,
    /// The registration completion names this currency (BMP 49) instead of the one registered with.
    /// Runs with it are judged on one thing only: whatever requests go out carry the *configured*
    /// currency (a client that refuses such a terminal sends none, which is fine).
    #[serde(default)]
    pub registration_currency: Option<u16>,
    /// An aborted end-of-day names this receipt number in BMP 87 behind its result code.
    #[serde(default)]
    pub eod_abort_receipt: Option<u16>,
    /// The status information of a reservation the terminal is going to abort carries that result code
    /// in BMP 27 (instead of 00): the exchange still ends with the abort packet.
    #[serde(default)]
    pub status_shows_abort_code: bool,
    /// A terminal that falls silent (fault kind Silence) also stops reading: client writes on that
    /// connection stay pending for ever.
    #[serde(default)]
    pub silent_terminal_stops_reading: bool,
    /// The first n initialisation commands (06 93) the terminal receives are aborted with code 0x83,
    /// whatever the plan's outcome queues say.
    #[serde(default)]
    pub init_abort_first_n: u8,
    /// The status information of a reservation reports this amount (a partial approval, say) instead
    /// of the amount requested.
    #[serde(default)]
    pub reservation_status_amount: Option<u64>,
}

// ---------------------------------------------------------------- state

#[derive(Clone, Debug, PartialEq, Eq)]
pub enum EntryState {
    Open,
    Released(u64),
    Reversed,
}

#[derive(Clone, Debug)]
pub struct LedgerEntry {
    pub receipt: u16,
    pub amount: u64,
    pub currency: u64,
    pub token: Vec<u8>,
    pub state: EntryState,
    /// Index of the request that created it.
    pub by_request: usize,
    pub dangling: bool,
}

#[derive(Clone, Debug)]
pub struct ReqLog {
    pub conn: u16,
    /// Index into the run's event log at arrival.
    pub seq: usize,
    pub t_ms: u64,
    pub frame: Vec<u8>,
    pub pkt: Option<Pkt>,
    /// Which public call was in progress (set by the engine).
    pub op: i32,
    /// Receipt number this request led the terminal to issue.
    pub issued_receipt: Option<u16>,
    /// Receipt number the terminal put into a status information of this exchange
    /// (whether or not the exchange then completed).
    pub offered_receipt: Option<u16>,
    /// Status information the terminal sent in this exchange (for the summary check).
    pub status_sent: Option<rc::Status>,
    /// Did the exchange end with a completion?
    pub completed: Option<bool>,
    /// The client's acknowledgement of the exchange's last packet arrived.
    pub final_acked: bool,
    pub dangling_reported: Option<u16>,
    /// Further receipts the answer to the pending query listed in its TLV container (tag 23 / 08):
    /// a client may reverse them too (nothing demands it).
    pub listed_reported: Vec<u16>,
    /// Result code of the abort packet that ended this exchange (as scripted).
    pub abort_sent: Option<u8>,
    /// 06 50 only: dangling pre-authorisations still open in the ledger when it arrived.
    pub open_dangling_at_arrival: Vec<u16>,
    /// Part of the handshake that vets a connection (the Registration and the identity request that
    /// follows it on the same connection), not of the public call during which it happened.
    pub handshake: bool,
}

#[derive(Clone, Debug)]
pub struct FaultFired {
    pub conn: u16,
    pub point: u16,
    pub kind: FaultKind,
    pub seq: usize,
    /// Control field of the command whose exchange was hit (0,0 = none).
    pub during: (u8, u8),
    /// Was it the acknowledgement point of that command?
    pub at_ack: bool,
    /// Control field of the frame the terminal was about to emit at that point.
    pub frame_cf: (u8, u8),
}

impl FaultFired {
    /// Was the frame at that point the last one of its exchange (completion, abort, or the status
    /// information that ends a card reading)?
    pub fn at_final_frame(&self) -> bool {
        !self.at_ack && (matches!(self.frame_cf, (0x06, 0x0f) | (0x06, 0x1e)) || (self.frame_cf == (0x04, 0x0f) && self.during == (0x06, 0xc0)))
    }
}

#[derive(Default, Clone, Debug)]
pub struct OutcomeQueues {
    pub reservation: VecDeque<ResOutcome>,
    pub partial_reversal: VecDeque<RevOutcome>,
    pub preauth_reversal: VecDeque<RevOutcome>,
    pub pending: VecDeque<(PendingSpec, u8)>,
    pub eod: VecDeque<EodOutcome>,
    pub card: VecDeque<CardOutcome>,
    pub set_tid: VecDeque<EndSpec>,
    pub init: VecDeque<(u8, u8, EndSpec)>,
    pub sysinfo: VecDeque<EndSpec>,
}

pub struct PtShared {
    pub spec: PtSpec,
    pub ledger: BTreeMap<u16, LedgerEntry>,
    pub next_receipt: u16,
    pub trace_counter: u64,
    pub q: OutcomeQueues,
    pub requests: Vec<ReqLog>,
    pub anomalies: Vec<(usize, u16, String)>,
    /// Planned BadBody / Foreign faults that were not injected because the library decodes them.
    pub not_a_fault: u64,
    /// Initialisation commands received so far.
    pub inits_seen: u8,
    pub faults: Vec<FaultSpec>,
    pub fired: Vec<FaultFired>,
    pub current_op: i32,
    pub srng: Rng,
    /// Schedule noise: emit after 0..=max_delay_ms with probability delay_pct.
    pub max_delay_ms: u64,
    pub delay_pct: u32,
    pub drng: Rng,
    /// Identity replies delivered per connection: (conn, serial, log seq).
    pub identity_sent: Vec<(u16, String, usize)>,
    pub duplicate_reservations: u64,
    pub last_card: Option<CardOutcome>,
    /// Outcomes already chosen in the current public call, so that a repeated command (after a
    /// transport fault) meets the same terminal decision: keyed by control field + receipt/token.
    pub sticky_res: Vec<(Vec<u8>, ResOutcome)>,
    pub sticky_rev: Vec<((u8, u8), u16, RevOutcome)>,
}

impl PtShared {
    pub fn new(
        spec: PtSpec,
        faults: Vec<FaultSpec>,
        delay: (u64, u32, u64),
    ) -> Self {
        PtShared {
            next_receipt: spec.receipt_start.clamp(1, 9999),
            srng: Rng::new(spec.status_seed),
            spec,
            ledger: BTreeMap::new(),
            trace_counter: 0,
            q: OutcomeQueues::default(),
            requests: vec![],
            anomalies: vec![],
            not_a_fault: 0,
            inits_seen: 0,
            faults,
            fired: vec![],
            current_op: -1,
            max_delay_ms: delay.0,
            delay_pct: delay.1,
            drng: Rng::new(delay.2),
            identity_sent: vec![],
            duplicate_reservations: 0,
            last_card: None,
            sticky_res: vec![],
            sticky_rev: vec![],
        }
    }

    fn issue_receipt(&mut self) -> u16 {
        for _ in 0..10000 {
            let r = self.next_receipt;
            self.next_receipt = if r >= 9999 { 1 } else { r + 1 };
            let busy = self.ledger.get(&r).map(|e| e.state == EntryState::Open).unwrap_or(false);
            if !busy {
                return r;
            }
        }
        1
    }

    fn status(&mut self, amount: u64, currency: u64, receipt: Option<u16>) -> rc::Status {
        self.trace_counter += 1;
        let r = &mut self.srng;
        let digits = |r: &mut Rng, max: u64| -> u64 {
            match r.below(6) {
                0 => 0,
                1 => max,
                _ => r.below(max + 1),
            }
        };
        let mut s = rc::Status {
            result_code: Some(0),
            amount: Some(amount),
            currency: Some(self.spec.status_currency.map(|c| c as u64).unwrap_or(currency)),
            trace: Some(digits(r, 999_999)),
            time: Some({
                let (h, m, sec) = (r.below(24), r.below(60), r.below(60));
                h * 10000 + m * 100 + sec
            }),
            date: Some({
                let (mo, d) = (r.range(1, 12), r.range(1, 28));
                mo * 100 + d
            }),
            terminal_id: Some(digits(r, 99_999_999)),
            receipt: receipt.map(|x| x as u64),
            reversed: self.spec.bmp_reversed,
            ..rc::Status::default()
        };
        if self.spec.rich_status {
            s.expiry = Some(2405);
            s.card_seq = Some(*r.pick(&[0u64, 1, 99, 255, 256, 1000, 9999]));
            s.pan = Some(vec![0x55, 0x98, 0x84, 0x55, 0x55, 0x54, 0x80, 0x74]);
            s.track2 = Some(vec![0x12, 0x34, 0xd2, 0x40, 0x5f]);
            // turnover number: its low digits look like BMP numbers (04, 22, 87, 88 ...)
            s.turnover = Some(*r.pick(&[1u64, 4, 104, 122, 223, 327, 429, 549, 660, 787, 888, 999_999, 870_231]));
            s.card_type = Some(0x60);
            s.aid = Some(*b"750071\0\0");
            s.vu = Some(*b"804011926      ");
            s.card_name = Some(b"MasterCard\0".to_vec());
            s.zvt_card_type = Some(6);
            s.zvt_card_type_id = Some(1);
            s.text = Some(b"AS-Proc-Code= 00 076 06".to_vec());
        }
        if self.spec.long_status_text > 0 {
            let n = self.spec.long_status_text.min(999) as usize;
            s.text = Some((0..n).map(|i| b'A' + (i % 26) as u8).collect());
        }
        s
    }
}

pub type Pt = Arc<Mutex<PtShared>>;

// ---------------------------------------------------------------- per-connection terminal

enum St {
    Idle,
    /// Waiting for the client's acknowledgement of the packet just sent; the
    /// rest of the exchange is queued.
    AwaitAck { rest: VecDeque<Emit>, req: usize, completes: bool },
    /// A terminating fault was applied: the terminal does nothing more here.
    Dead,
}

/// `06 1E c`, with a TLV container (extended error code, error text) behind the code if bit 1 is set.
fn decorated_abort(c: u8, decorated: u8) -> Vec<u8> {
    if decorated & 2 == 0 {
        return rc::abort(c, rc::AbortExtra::None);
    }
    let mut t = rc::Tlv::prim(0x1f16, &[0x05]).encode();
    t.extend(rc::Tlv::prim(0x1f17, b"Vorgang abgebrochen").encode());
    let mut body = vec![c, 0x06];
    body.extend(rc::ber_len(t.len()));
    body.extend(t);
    rc::apdu((0x06, 0x1e), &body)
}

#[derive(Clone, Debug)]
struct Emit {
    frame: Vec<u8>,
    /// Extra delay before this frame (ms).
    delay_ms: u64,
    /// Is this the identity reply (for WrongSerial)?
    identity: bool,
    /// Side effect to apply when this frame has been emitted.
    effect: Effect,
}

#[derive(Clone, Debug)]
enum Effect {
    None,
    Book { receipt: u16, amount: u64, currency: u64, token: Vec<u8> },
    Release { receipt: u16, amount: u64 },
    Reverse { receipt: u16 },
}

pub struct PtConn {
    pt: Pt,
    conn: u16,
    st: St,
    point: u16,
    silent: bool,
    /// A Registration was just answered on this connection: the next 0F A1 is the identity check of the handshake.
    expect_identity: bool,
    /// The exchange in progress belongs to a handshake (Registration / identity request).
    cur_handshake: bool,
    close_when_idle: bool,
    /// Closed cleanly between two exchanges: later frames go nowhere (no anomaly: the client cannot know).
    closed_idle: bool,
}

impl PtConn {
    pub fn new(pt: Pt, conn: u16) -> Self {
        PtConn {
            pt,
            conn,
            st: St::Idle,
            point: 0,
            silent: false,
            expect_identity: false,
            cur_handshake: false,
            close_when_idle: false,
            closed_idle: false,
        }
    }

    /// Emits one frame, applying the fault planned for this emission point.
    /// Returns false if the connection is dead afterwards.
    fn emit(&mut self, io: &mut TermIo<'_>, e: &Emit, during: (u8, u8), at_ack: bool) -> bool {
        // emission points beyond 65535 are never addressed by a plan: saturate
        self.point = self.point.saturating_add(1);
        let point = self.point;
        let mut pt = self.pt.lock().unwrap();
        let mut fault = pt
            .faults
            .iter()
            .find(|f| f.conn == self.conn && f.point == point)
            .map(|f| f.kind);
        if let Some(n) = pt.spec.dead_from_conn {
            if self.conn >= n && point == pt.spec.dead_point.max(1) {
                fault = Some(FaultKind::Silence);
            }
        }
        // "undecodable body" and "foreign packet" are faults only if the library under test cannot
        // decode them in this exchange: a library that (legitimately) reads a blank `06 D1 00`, or
        // knows one more reply, is not faulted by them - the terminal then simply sends what it meant to
        if let Some(kind @ (FaultKind::BadBody | FaultKind::Foreign(..))) = fault {
            let frame = match kind {
                FaultKind::BadBody => bad_body_for((e.frame[0], e.frame[1]), e.identity),
                FaultKind::Foreign(c, i) => rc::apdu((c, i), &[0x27, 0x00]),
                _ => unreachable!(),
            };
            use crate::seqs::SeqId;
            let seq = match during {
                (0x06, 0x00) => Some(SeqId::Registration),
                (0x0f, 0xa1) => Some(SeqId::GetSystemInfo),
                (0x06, 0x22) => Some(SeqId::Reservation),
                (0x06, 0x23) | (0x06, 0x25) => Some(SeqId::PartialReversal),
                (0x06, 0x50) => Some(SeqId::EndOfDay),
                (0x06, 0xc0) => Some(SeqId::ReadCard),
                (0x06, 0x93) => Some(SeqId::Initialization),
                (0x06, 0x1b) => Some(SeqId::SetTerminalId),
                _ => None,
            };
            let decodable = if at_ack {
                // at the acknowledgement point the library expects 80 00 and nothing else
                false
            } else {
                seq.map(|s| crate::seqs::library_parses(s, &frame).unwrap_or(false)).unwrap_or(false)
            };
            if decodable {
                io.note(format!("fault {:?} at c{} p{} is decodable for this library: not injected", kind, self.conn, point));
                pt.not_a_fault += 1;
                fault = None;
            }
        }
        let mut delay = e.delay_ms;
        // (the handshake is not paced: how long a client gives the handshake as a whole is its own choice)
        if !at_ack && !self.cur_handshake {
            delay += pt.spec.pace_ms as u64;
        }
        if !at_ack && self.cur_handshake {
            delay += pt.spec.handshake_pace_ms as u64;
        }
        let dp = pt.delay_pct;
        if dp > 0 && pt.drng.pct(dp) {
            let max = pt.max_delay_ms;
            delay += pt.drng.below(max + 1);
        }
        let seq = io.seq();
        let frame_cf = (e.frame.first().copied().unwrap_or(0), e.frame.get(1).copied().unwrap_or(0));
        let fire = |pt: &mut PtShared, kind: FaultKind| {
            pt.fired.push(FaultFired {
                conn: self.conn,
                point,
                kind,
                seq,
                during,
                at_ack,
                frame_cf,
            });
        };
        match fault {
            None => {}
            Some(FaultKind::WrongSerial) if !e.identity => {}
            Some(FaultKind::IdentityAbort(_)) if !e.identity => {}
            Some(FaultKind::CloseIdle) => {
                io.note(format!("fault CloseIdle at c{} p{}", self.conn, point));
                fire(&mut pt, FaultKind::CloseIdle);
                self.close_when_idle = true;
            }
            Some(kind) => {
                io.note(format!("fault {:?} at c{} p{}", kind, self.conn, point));
                match kind {
                    FaultKind::Eof => {
                        fire(&mut pt, kind);
                        io.close(CloseKind::Eof);
                        return false;
                    }
                    FaultKind::Reset => {
                        fire(&mut pt, kind);
                        io.close(CloseKind::Reset);
                        return false;
                    }
                    FaultKind::EofMid(n) => {
                        fire(&mut pt, kind);
                        let n = (n as usize) % e.frame.len().max(1);
                        io.release_after(delay, &e.frame[..n]);
                        io.close(CloseKind::Eof);
                        return false;
                    }
                    FaultKind::Nack(x) => {
                        fire(&mut pt, kind);
                        io.release_after(delay, &rc::nack(x));
                        return false;
                    }
                    FaultKind::Foreign(c, i) => {
                        fire(&mut pt, kind);
                        io.release_after(delay, &rc::apdu((c, i), &[0x27, 0x00]));
                        return false;
                    }
                    FaultKind::BadBody => {
                        fire(&mut pt, kind);
                        let cf = (e.frame[0], e.frame[1]);
                        io.release_after(delay, &bad_body_for(cf, e.identity));
                        return false;
                    }
                    FaultKind::Junk => {
                        fire(&mut pt, kind);
                        // announces 200 body bytes and delivers four
                        io.release_after(delay, &[0x04, 0x0f, 0xc8, 0xde, 0xad, 0xbe, 0xef]);
                        return false;
                    }
                    FaultKind::Silence => {
                        fire(&mut pt, kind);
                        self.silent = true;
                        if pt.spec.silent_terminal_stops_reading {
                            // a terminal that hangs does not drain its socket either: what the client
                            // still writes on this connection stays pending
                            io.block_writes();
                        }
                        return false;
                    }
                    FaultKind::StallMid(n) => {
                        fire(&mut pt, kind);
                        let n = (n as usize) % e.frame.len().max(1);
                        io.release_after(delay, &e.frame[..n]);
                        self.silent = true;
                        return false;
                    }
                    FaultKind::EpipeAfter => {
                        fire(&mut pt, kind);
                        // the frame goes out as usual (with its booking / release / reversal), only
                        // the client's answer can no longer be written
                        if e.identity {
                            let serial = String::from_utf8_lossy(&e.frame[3..11]).to_string();
                            pt.identity_sent.push((self.conn, serial, seq));
                        }
                        let eff = e.effect.clone();
                        drop(pt);
                        self.apply_effect(&eff);
                        io.release_after(delay, &e.frame);
                        io.fail_writes();
                        return false;
                    }
                    FaultKind::ReadErr(k) => {
                        fire(&mut pt, kind);
                        io.fail_read_once(match k % 3 {
                            0 => std::io::ErrorKind::Interrupted,
                            1 => std::io::ErrorKind::WouldBlock,
                            _ => std::io::ErrorKind::TimedOut,
                        });
                        self.silent = true;
                        return false;
                    }
                    FaultKind::IdentityAbort(code) => {
                        fire(&mut pt, kind);
                        let seq = io.seq();
                        pt.identity_sent.push((self.conn, format!("<abort {code:02x}>"), seq));
                        io.release_after(delay, &rc::abort(code, rc::AbortExtra::None));
                        return true;
                    }
                    FaultKind::StaleAfter(form) => {
                        fire(&mut pt, kind);
                        let mut bytes = e.frame.clone();
                        bytes.extend_from_slice(match form % 4 {
                            0 => &[0x04, 0xff, 0x01, 0x0e],
                            1 => &[0x04],
                            2 => &[0x04, 0xff, 0x03, 0x01],
                            _ => &[0x06, 0xd3, 0xff, 0x2c, 0x01, 0x06, 0x82, 0x01, 0x28, 0x25, 0x82, 0x01, 0x24],
                        });
                        if e.identity {
                            let serial = String::from_utf8_lossy(&e.frame[3..11]).to_string();
                            pt.identity_sent.push((self.conn, serial, seq));
                        }
                        // the frame's side effect (booking, release, reversal) happens as usual
                        match &e.effect {
                            Effect::None => {}
                            other => {
                                let eff = other.clone();
                                drop(pt);
                                self.apply_effect(&eff);
                                io.release_after(delay, &bytes);
                                return true;
                            }
                        }
                        io.release_after(delay, &bytes);
                        return true;
                    }
                    FaultKind::CloseIdle => unreachable!(),
                    FaultKind::WrongSerial => {
                        fire(&mut pt, kind);
                        let mut f = e.frame.clone();
                        // device id = first 8 body bytes
                        for (k, b) in b"BADC0DE5".iter().enumerate() {
                            f[3 + k] = *b;
                        }
                        let seq = io.seq();
                        pt.identity_sent.push((self.conn, "BADC0DE5".to_string(), seq));
                        io.release_after(delay, &f);
                        return true;
                    }
                }
            }
        }
        if e.identity {
            let serial = String::from_utf8_lossy(&e.frame[3..11]).to_string();
            let seq = io.seq();
            pt.identity_sent.push((self.conn, serial, seq));
        }
        let eff = e.effect.clone();
        let pause = match pt.spec.frame_pause {
            _ if at_ack => None,
            Some((_, _, 1)) if e.frame.len() < 2 || (e.frame[0], e.frame[1]) != (0x06, 0x1e) => None,
            Some((_, _, 2)) if self.cur_handshake => None,
            other => other,
        };
        drop(pt);
        self.apply_effect(&eff);
        match pause {
            Some((n, ms, _)) if (n as usize) < e.frame.len() && n > 0 => {
                io.release_after(delay, &e.frame[..n as usize]);
                io.release_after(ms as u64, &e.frame[n as usize..]);
            }
            _ => io.release_after(delay, &e.frame),
        }
        true
    }

    fn apply_effect(&mut self, effect: &Effect) {
        let mut pt = self.pt.lock().unwrap();
        let pt = &mut *pt;
        match effect {
            Effect::None => {}
            Effect::Book { receipt, amount, currency, token } => {
                let by_request = pt.requests.len().saturating_sub(1);
                if pt
                    .ledger
                    .values()
                    .any(|l| l.state == EntryState::Open && l.token == *token && !l.dangling)
                {
                    pt.duplicate_reservations += 1;
                }
                if let Some(r) = pt.requests.get_mut(by_request) {
                    r.issued_receipt = Some(*receipt);
                }
                pt.ledger.insert(
                    *receipt,
                    LedgerEntry {
                        receipt: *receipt,
                        amount: *amount,
                        currency: *currency,
                        token: token.clone(),
                        state: EntryState::Open,
                        by_request,
                        dangling: false,
                    },
                );
            }
            Effect::Release { receipt, amount } => {
                if let Some(l) = pt.ledger.get_mut(receipt) {
                    l.state = EntryState::Released(*amount);
                }
            }
            Effect::Reverse { receipt } => {
                if let Some(l) = pt.ledger.get_mut(receipt) {
                    l.state = EntryState::Reversed;
                }
            }
        }
    }

    fn anomaly(&mut self, io: &mut TermIo<'_>, msg: String) {
        io.note(format!("anomaly: {msg}"));
        let mut pt = self.pt.lock().unwrap();
        let seq = io.seq();
        pt.anomalies.push((seq, self.conn, msg));
    }

    /// Builds the reply script for a command.
    fn script(&mut self, pkt: &Pkt, req: usize) -> (Vec<Emit>, bool) {
        let mut pt = self.pt.lock().unwrap();
        let plain = |frame: Vec<u8>| Emit {
            frame,
            delay_ms: 0,
            identity: false,
            effect: Effect::None,
        };
        let mut out = vec![plain(rc::ACK.to_vec())];
        let mut completes = true;
        // status informations with differing values inside one script (frame, values): the one that
        // goes out last is "what the terminal reported"
        let mut status_cands: Vec<(Vec<u8>, rc::Status)> = vec![];
        let (codes_kind, tmo) = (pt.spec.status_codes, pt.spec.intermediate_timeout);
        let decorated = pt.spec.decorated;
        let pre = move |out: &mut Vec<Emit>, n: u8| {
            for i in 0..n {
                let code = match if codes_kind >= 4 { 4 } else { codes_kind } {
                    4 => (codes_kind - 4) as u8,
                    0 => 0x0e + i % 4,
                    1 => [0x41u8, 0x4b, 0x9c, 0xd2, 0x1c, 0x68][(i % 6) as usize],
                    2 => [0x00u8, 0xff][(i % 2) as usize],
                    _ => [0x0au8, 0x17, 0x41, 0x0e, 0xc7, 0xff, 0x00, 0x4b][(i % 8) as usize],
                };
                // (a BCD byte: values up to 99)
                if decorated & 1 != 0 {
                    let lines = rc::Tlv::cons(0x24, vec![rc::Tlv::prim(0x07, format!("Bitte Karte {i}").as_bytes()), rc::Tlv::prim(0x07, b"")]);
                    let mut body = vec![code];
                    if let Some(t) = tmo {
                        body.extend(rc::bcd(t.min(99) as u64, 1));
                    }
                    let t = lines.encode();
                    body.push(0x06);
                    body.extend(rc::ber_len(t.len()));
                    body.extend(t);
                    out.push(plain(rc::apdu((0x04, 0xff), &body)));
                    continue;
                }
                out.push(plain(rc::intermediate(code, tmo.map(|t| t.min(99)))));
            }
        };
        let prints = |out: &mut Vec<Emit>, n: u8| {
            for i in 0..n {
                if i % 2 == 0 {
                    out.push(plain(rc::print_line(0, format!("receipt line {i}").as_bytes())));
                } else {
                    out.push(plain(rc::print_text_block(1, &[b"** Receipt **".to_vec()])));
                }
            }
        };
        let end = |out: &mut Vec<Emit>, e: EndSpec, effect: Effect| match e {
            EndSpec::Completion => out.push(Emit {
                frame: rc::completion(),
                delay_ms: 0,
                identity: false,
                effect,
            }),
            EndSpec::Abort(c) => out.push(plain(decorated_abort(c, decorated))),
        };
        match pkt.cf {
            (0x06, 0x00) => {
                let tid = pt.spec.terminal_id.parse::<u64>().unwrap_or(0);
                // (only where the plan says so does the registration completion name another currency than
                // the one the client registered with: a client may refuse such a terminal altogether)
                let cur = pt.spec.registration_currency.map(|c| c as u64).or(pkt_currency(pkt));
                out.push(plain(rc::completion_with(Some(0x10), Some(tid), cur)));
            }
            (0x0f, 0xa1) => {
                // the identity check of a handshake is answered truthfully (faults on it come from the
                // fault plan: WrongSerial, IdentityAbort); planned aborts are for configure's own request
                let o = if pt.requests[req].handshake { EndSpec::Completion } else { pt.q.sysinfo.pop_front().unwrap_or(EndSpec::Completion) };
                match o {
                    EndSpec::Abort(c) => out.push(plain(rc::abort(c, rc::AbortExtra::None))),
                    EndSpec::Completion => {
                        let mut serial = [b' '; 8];
                        for (i, b) in pt.spec.serial.bytes().take(8).enumerate() {
                            serial[i] = b;
                        }
                        let mut tid = [b'0'; 8];
                        for (i, b) in pt.spec.terminal_id.bytes().take(8).enumerate() {
                            tid[i] = b;
                        }
                        let temp = if pt.spec.temperature.len() == 3 || pt.spec.temperature.len() == 4 {
                            pt.spec.temperature.clone().into_bytes()
                        } else {
                            b"24.4".to_vec()
                        };
                        out.push(Emit {
                            frame: rc::sysinfo(&serial, b"GER-APP-v2.0.9   ", &tid, &temp),
                            delay_ms: 0,
                            identity: true,
                            effect: Effect::None,
                        });
                    }
                }
            }
            (0x06, 0x1b) => {
                let o = pt.q.set_tid.pop_front().unwrap_or(EndSpec::Completion);
                if o == EndSpec::Completion {
                    if let Some(t) = pkt.get_bcd(0x29) {
                        pt.spec.terminal_id = format!("{:08}", t);
                    }
                }
                end(&mut out, o, Effect::None);
            }
            (0x06, 0x93) => {
                let (p, pr, mut e) = pt.q.init.pop_front().unwrap_or((0, 0, EndSpec::Completion));
                pt.inits_seen = pt.inits_seen.saturating_add(1);
                if pt.inits_seen <= pt.spec.init_abort_first_n {
                    e = EndSpec::Abort(0x83);
                }
                pre(&mut out, p);
                prints(&mut out, pr);
                end(&mut out, e, Effect::None);
            }
            (0x06, 0x50) => {
                let o = pt.q.eod.pop_front().unwrap_or(EodOutcome {
                    pre: 0,
                    status: false,
                    prints: 0,
                    end: EndSpec::Completion,
                });
                pre(&mut out, o.pre);
                if o.status {
                    let s = pt.status(958, 978, None);
                    out.push(plain(rc::status_info(&s)));
                }
                prints(&mut out, o.prints);
                match (o.end, pt.spec.eod_abort_receipt) {
                    // the long form of the refusal: it names a receipt (2.10.1 style)
                    (EndSpec::Abort(c), Some(r)) => out.push(plain(rc::abort(c, rc::AbortExtra::Receipt(r)))),
                    _ => end(&mut out, o.end, Effect::None),
                }
            }
            (0x06, 0xc0) => {
                // a retried read-card command of the same call sees the same card
                let o = match pt.q.card.pop_front() {
                    Some(o) => {
                        pt.last_card = Some(o.clone());
                        o
                    }
                    None => pt.last_card.clone().unwrap_or(CardOutcome {
                        pre: 0,
                        kind: CardKind::Card {
                            uid: Some("04a1b2c3d4e5f6".into()),
                            apps: None,
                            nested_apps: None,
                            no_tlv: false,
                        },
                        delay_ms: 0,
                    }),
                };
                pre(&mut out, o.pre);
                let h = |s: &Option<String>| s.as_ref().map(|x| crate::exchange::hexser::from_hex(x).unwrap_or_default());
                match &o.kind {
                    CardKind::Abort(c) => out.push(Emit {
                        frame: decorated_abort(*c, decorated),
                        delay_ms: o.delay_ms,
                        identity: false,
                        effect: Effect::None,
                    }),
                    CardKind::RawTlv(hex) => {
                        let raw = crate::exchange::hexser::from_hex(hex).unwrap_or_default();
                        let mut body = vec![0x27, 0x00, 0x06];
                        body.extend(rc::ber_len(raw.len()));
                        body.extend(raw);
                        out.push(Emit { frame: rc::apdu((0x04, 0x0f), &body[..body.len().min(65535)]), delay_ms: o.delay_ms, identity: false, effect: Effect::None });
                    }
                    CardKind::Card { uid, apps, nested_apps, no_tlv } => {
                        let mut st = rc::Status {
                            result_code: Some(0),
                            reversed: pt.spec.bmp_reversed,
                            ..rc::Status::default()
                        };
                        if pt.spec.rich_status {
                            // what else the status information of a card reading may carry as BMPs
                            st.card_seq = Some(*pt.srng.pick(&[0u64, 1, 99, 255, 256, 1000, 9999]));
                            st.expiry = Some(2405);
                            st.card_type = Some(0x60);
                            st.pan = Some(vec![0x55, 0x98, 0x84, 0x55, 0x55, 0x54, 0x80, 0x74]);
                        }
                        if !no_tlv {
                            let apps_v: Option<Vec<(Option<Vec<u8>>, Option<Vec<u8>>)>> =
                                apps.as_ref().map(|v| v.iter().map(|a| (h(&a.aid), h(&a.ctype))).collect());
                            let mut ts = rc::card_tlv(h(uid).as_deref(), apps_v.as_deref());
                            ts.push(rc::Tlv::prim(0x1f4c, &[1]));
                            ts.push(rc::Tlv::prim(0x1f50, &[0x20]));
                            if pt.spec.rich_status {
                                // everything else the status TLV of a card can carry: a card-side
                                // pre-authorisation limit (1F0B, BCD), identification item, ATS, sub type, ATQA
                                let limit = match pt.srng.below(4) {
                                    0 => 0,
                                    1 => 1000,
                                    2 => 999_999_999_999,
                                    _ => pt.srng.below(5000),
                                };
                                ts.push(rc::Tlv::prim(0x1f0b, &rc::bcd(limit, 6)));
                                ts.push(rc::Tlv::prim(0x1f14, &[0x67, 0x32, 0x00, 0x01]));
                                ts.push(rc::Tlv::prim(0x1f45, &[0x78, 0x80, 0x82, 0x02]));
                                ts.push(rc::Tlv::prim(0x1f4d, &[0x00]));
                                ts.push(rc::Tlv::prim(0x1f4f, &[0x04, 0x00]));
                            }
                            if let Some(n) = nested_apps {
                                let inner: Vec<rc::Tlv> = n
                                    .iter()
                                    .map(|a| {
                                        let mut c = vec![];
                                        if let Some(x) = h(&a.aid) {
                                            c.push(rc::Tlv::prim(0x43, &x));
                                        }
                                        if let Some(x) = h(&a.ctype) {
                                            c.push(rc::Tlv::prim(0x41, &x));
                                        }
                                        rc::Tlv::cons(0x60, c)
                                    })
                                    .collect();
                                ts.push(rc::Tlv::cons(0x62, inner));
                            }
                            st.tlv = Some(ts);
                        }
                        out.push(Emit {
                            frame: rc::status_info(&st),
                            delay_ms: o.delay_ms,
                            identity: false,
                            effect: Effect::None,
                        });
                    }
                }
            }
            (0x06, 0x22) => {
                let amount = pkt.get_bcd(0x04).unwrap_or(0);
                let currency = pkt.get_bcd(0x49).unwrap_or(0);
                let token = pkt
                    .tlvs()
                    .and_then(|t| rc::find_path(&t, &[0xe9, 0x1f63]).and_then(|x| x.prim_val().map(|v| v.to_vec())))
                    .unwrap_or_default();
                let o = match pt.sticky_res.iter().find(|(t, _)| *t == token) {
                    Some((_, o)) => o.clone(),
                    None => {
                        let o = pt.q.reservation.pop_front().unwrap_or_else(ResOutcome::success);
                        pt.sticky_res.push((token.clone(), o.clone()));
                        o
                    }
                };
                pre(&mut out, o.pre);
                let mut receipt = None;
                let with = matches!(
                    o.status,
                    StatusMode::WithReceipt | StatusMode::WithReceiptTwice | StatusMode::WithThenWithout
                );
                if with {
                    let r = pt.issue_receipt();
                    receipt = Some(r);
                    pt.requests[req].offered_receipt = Some(r);
                    let shown = pt.spec.reservation_status_amount.unwrap_or(amount);
                    let mut s = pt.status(shown, currency, Some(r));
                    if let (true, EndSpec::Abort(c)) = (pt.spec.status_shows_abort_code, o.end) {
                        s.result_code = Some(c);
                    }
                    out.push(plain(rc::status_info(&s)));
                    pt.requests[req].status_sent = Some(s);
                    if o.status == StatusMode::WithReceiptTwice {
                        let s2 = pt.status(amount, currency, Some(r));
                        out.push(plain(rc::status_info(&s2)));
                    }
                    if o.status == StatusMode::WithThenWithout {
                        let s2 = pt.status(amount, currency, None);
                        out.push(plain(rc::status_info(&s2)));
                    }
                } else if o.status == StatusMode::NoReceipt {
                    let s = pt.status(amount, currency, None);
                    out.push(plain(rc::status_info(&s)));
                }
                prints(&mut out, o.prints);
                let effect = match (receipt, o.end) {
                    (Some(r), EndSpec::Completion) => {
                        // issued_receipt is set when the completion is actually emitted (Effect::Book)
                        Effect::Book {
                            receipt: r,
                            amount,
                            currency,
                            token,
                        }
                    }
                    _ => Effect::None,
                };
                match (o.end, pt.spec.abort_extras) {
                    (EndSpec::Abort(c), form) if form > 0 => {
                        let mut body = vec![c];
                        if form != 4 {
                            body.extend(rc::bcd(pt.spec.status_currency.map(|c| c as u64).unwrap_or(currency), 2));
                        }
                        if form >= 2 {
                            let mut t = match form {
                                2 => vec![0x1f, 0x16, 0x01, c],
                                _ => vec![0x1f, 0x16, 0x02, 0x00, c],
                            };
                            if form >= 3 {
                                let text = b"declined by the host";
                                t.extend([0x1f, 0x17, text.len() as u8]);
                                t.extend_from_slice(text);
                            }
                            body.push(0x06);
                            body.push(t.len() as u8);
                            body.extend(t);
                        }
                        out.push(plain(rc::apdu((0x06, 0x1e), &body)));
                    }
                    _ => end(&mut out, o.end, effect),
                }
            }
            (0x06, 0x23) => {
                let raw = pkt.get(0x87).map(|v| v.to_vec());
                if raw.as_deref() == Some(&[0xff, 0xff]) {
                    // pending query (2.10.1): answered with an abort packet
                    let (p, n) = pt.q.pending.pop_front().unwrap_or((PendingSpec::NoneFfff, 0));
                    pre(&mut out, n);
                    let still_open = pt.ledger.values().find(|l| l.dangling && l.state == EntryState::Open).map(|l| l.receipt);
                    let mut listed: Option<(u16, u16)> = None;
                    let extra = match p {
                        _ if still_open.is_some() => {
                            // reported before (or booked for a reply that never got through) and never reversed
                            let r = still_open.unwrap();
                            pt.requests[req].dangling_reported = Some(r);
                            rc::AbortExtra::Receipt(r)
                        }
                        PendingSpec::NoneFfff => rc::AbortExtra::NoneMarker,
                        PendingSpec::NoBmp => rc::AbortExtra::None,
                        PendingSpec::Dangling | PendingSpec::DanglingAt(_) | PendingSpec::DanglingWithList | PendingSpec::DanglingWithOtherList | PendingSpec::DanglingReusing => {
                            let cur_op = pt.current_op;
                            // (not the receipt this very call has just released / reversed)
                            let own_now: Vec<u16> = pt
                                .requests
                                .iter()
                                .filter(|r| r.op == cur_op)
                                .filter_map(|r| r.pkt.as_ref())
                                .filter(|p| matches!(p.cf, (0x06, 0x23) | (0x06, 0x25)))
                                .filter_map(|p| p.get_bcd(0x87).map(|x| x as u16))
                                .collect();
                            let reusable = pt
                                .ledger
                                .values()
                                .filter(|l| l.state != EntryState::Open && !l.dangling && !own_now.contains(&l.receipt))
                                .map(|l| l.receipt)
                                .min();
                            let r = match p {
                                PendingSpec::DanglingReusing if reusable.is_some() => reusable.unwrap(),
                                // (unless the ledger already knows that number: an earlier or current transaction)
                                PendingSpec::DanglingAt(r) if !pt.ledger.contains_key(&r) => r,
                                _ => pt.issue_receipt(),
                            };
                            let by_request = req;
                            pt.ledger.insert(
                                r,
                                LedgerEntry {
                                    receipt: r,
                                    amount: 2500,
                                    currency: 978,
                                    token: b"earlier-session".to_vec(),
                                    state: EntryState::Open,
                                    by_request,
                                    dangling: true,
                                },
                            );
                            pt.requests[req].dangling_reported = Some(r);
                            if matches!(p, PendingSpec::DanglingWithList | PendingSpec::DanglingWithOtherList) {
                                let r2 = pt.issue_receipt();
                                pt.ledger.insert(
                                    r2,
                                    LedgerEntry {
                                        receipt: r2,
                                        amount: 1200,
                                        currency: 978,
                                        token: b"listed-only".to_vec(),
                                        state: EntryState::Open,
                                        by_request,
                                        dangling: false,
                                    },
                                );
                                listed = Some((r, r2));
                                pt.requests[req].listed_reported = vec![r, r2];
                            }
                            rc::AbortExtra::Receipt(r)
                        }
                    };
                    if let Some((r, r2)) = listed {
                        let mut body = vec![0xb8, 0x87];
                        body.extend(rc::bcd(r as u64, 2));
                        let mut list = vec![];
                        if p == PendingSpec::DanglingWithList {
                            list.extend([0x08, 0x02]);
                            list.extend(rc::bcd(r as u64, 2));
                        }
                        list.extend([0x08, 0x02]);
                        list.extend(rc::bcd(r2 as u64, 2));
                        let mut t = vec![0x23, list.len() as u8];
                        t.extend(list);
                        body.push(0x06);
                        body.push(t.len() as u8);
                        body.extend(t);
                        out.push(plain(rc::apdu((0x06, 0x1e), &body)));
                    } else {
                        out.push(plain(rc::abort(0xb8, extra)));
                    }
                    completes = true;
                } else {
                    let receipt = pkt.get_bcd(0x87).unwrap_or(0) as u16;
                    let o = match pt.sticky_rev.iter().find(|(cf, r, _)| *cf == (0x06, 0x23) && *r == receipt) {
                        Some((_, _, o)) => o.clone(),
                        None => {
                            let o = pt.q.partial_reversal.pop_front().unwrap_or_else(RevOutcome::success);
                            pt.sticky_rev.push(((0x06, 0x23), receipt, o.clone()));
                            o
                        }
                    };
                    let release = pkt.get_bcd(0x04).unwrap_or(0);
                    let known = pt.ledger.get(&receipt).map(|l| l.state == EntryState::Open).unwrap_or(false);
                    pre(&mut out, o.pre);
                    if !known {
                        // no such open pre-authorisation: the terminal refuses (B4 = already reversed)
                        let code = if pt.ledger.contains_key(&receipt) { 0xb4 } else { 0xb8 };
                        out.push(plain(rc::abort(code, rc::AbortExtra::None)));
                    } else {
                        let l = pt.ledger.get(&receipt).unwrap().clone();
                        if o.status && o.pre % 2 == 1 {
                            // a preliminary status information with other values in front:
                            // the summary must reproduce the last one the terminal reported
                            let s0 = pt.status(l.amount, l.currency, None);
                            out.insert(1, plain(rc::status_info(&s0)));
                            status_cands.push((rc::status_info(&s0), s0));
                        }
                        if o.status {
                            let s = pt.status(l.amount.saturating_sub(release), l.currency, Some(receipt));
                            out.push(plain(rc::status_info(&s)));
                            status_cands.push((rc::status_info(&s), s.clone()));
                            pt.requests[req].status_sent = Some(s);
                        }
                        prints(&mut out, o.prints);
                        match (o.end, pt.spec.reversal_abort_receipt) {
                            (EndSpec::Abort(c), Some(r)) if r != receipt => out.push(plain(rc::abort(c, rc::AbortExtra::Receipt(r)))),
                            _ => end(&mut out, o.end, Effect::Release { receipt, amount: release }),
                        }
                    }
                }
            }
            (0x06, 0x25) => {
                let receipt = pkt.get_bcd(0x87).unwrap_or(0) as u16;
                let o = match pt.sticky_rev.iter().find(|(cf, r, _)| *cf == (0x06, 0x25) && *r == receipt) {
                    Some((_, _, o)) => o.clone(),
                    None => {
                        let o = pt.q.preauth_reversal.pop_front().unwrap_or_else(RevOutcome::success);
                        pt.sticky_rev.push(((0x06, 0x25), receipt, o.clone()));
                        o
                    }
                };
                let known = pt.ledger.get(&receipt).map(|l| l.state == EntryState::Open).unwrap_or(false);
                pre(&mut out, o.pre);
                if !known {
                    let code = if pt.ledger.contains_key(&receipt) { 0xb4 } else { 0xb8 };
                    out.push(plain(rc::abort(code, rc::AbortExtra::None)));
                } else {
                    if o.status {
                        let s = pt.status(0, 978, Some(receipt));
                        out.push(plain(rc::status_info(&s)));
                    }
                    prints(&mut out, o.prints);
                    match (o.end, pt.spec.reversal_abort_receipt) {
                        (EndSpec::Abort(c), Some(r)) if r != receipt => out.push(plain(rc::abort(c, rc::AbortExtra::Receipt(r)))),
                        _ => end(&mut out, o.end, Effect::Reverse { receipt }),
                    }
                }
            }
            _ => {
                // a command the model has no script for (status enquiry, diagnosis, ...): acknowledged
                // and completed, as most ZVT commands are - a change that adds a harmless exchange must
                // not lose its connection to the simulator's ignorance
                out.push(plain(rc::completion()));
            }
        }
        if pt.spec.script_order != 0 && out.len() > 3 && !pt.requests[req].handshake {
            let n = out.len();
            let mid: Vec<Emit> = out.drain(1..n - 1).collect();
            let m = mid.len();
            let idx: Vec<usize> = match pt.spec.script_order % 4 {
                1 => (0..m).rev().collect(),
                2 => (1..m).chain(0..1).collect(),
                3 => (0..m).filter(|i| i % 2 == 1).chain((0..m).filter(|i| i % 2 == 0)).collect(),
                _ => (0..m).collect(),
            };
            let last = out.pop().unwrap();
            for i in idx {
                out.push(mid[i].clone());
            }
            out.push(last);
            if let Some(f) = out.iter().rev().find(|e| e.frame.len() > 2 && (e.frame[0], e.frame[1]) == (0x04, 0x0f)) {
                if let Some((_, st)) = status_cands.iter().find(|(fr, _)| *fr == f.frame) {
                    pt.requests[req].status_sent = Some(st.clone());
                }
            }
        }
        if let Some(last) = out.last() {
            if last.frame.len() >= 4 && (last.frame[0], last.frame[1]) == (0x06, 0x1e) {
                pt.requests[req].abort_sent = Some(last.frame[3]);
            }
        }
        if pkt.cf == (0x06, 0x50) {
            pt.requests[req].open_dangling_at_arrival = pt
                .ledger
                .values()
                .filter(|l| l.dangling && l.state == EntryState::Open)
                .map(|l| l.receipt)
                .collect();
        }
        (out, completes)
    }

    fn advance(&mut self, io: &mut TermIo<'_>, mut rest: VecDeque<Emit>, req: usize, completes: bool, during: (u8, u8), first: bool) {
        // emit the acknowledgement (first) and/or the next packet
        if first {
            let ack = rest.pop_front().unwrap();
            if !self.emit(io, &ack, during, true) {
                // a negative acknowledgement ends the exchange at protocol level: where the plan says so the
                // terminal is simply idle again afterwards (a client may go on with the connection)
                let nack_only = {
                    let pt = self.pt.lock().unwrap();
                    pt.spec.nack_keeps_connection && pt.fired.last().map(|f| f.conn == self.conn && f.at_ack && matches!(f.kind, FaultKind::Nack(_) | FaultKind::BadBody)).unwrap_or(false)
                };
                self.st = if nack_only { St::Idle } else { St::Dead };
                return;
            }
            if ack.frame != rc::ACK {
                self.st = St::Idle;
                return;
            }
        }
        match rest.pop_front() {
            Some(e) => {
                let is_last = rest.is_empty();
                if !self.emit(io, &e, during, false) {
                    self.st = St::Dead;
                    return;
                }
                if is_last {
                    let cf = (e.frame[0], e.frame[1]);
                    let mut pt = self.pt.lock().unwrap();
                    pt.requests[req].completed = Some(cf == (0x06, 0x0f));
                }
                self.st = St::AwaitAck { rest, req, completes };
            }
            None => {
                self.st = St::Idle;
            }
        }
    }
}

/// A frame of control field `cf` that the packet type cannot decode (an
/// acknowledgement has no body to break: a negative one is used instead).
/// C09 verifies at start-up that the library indeed rejects each of them.
pub fn bad_body_for(cf: (u8, u8), identity: bool) -> Vec<u8> {
    match cf {
        (0x80, 0x00) => rc::nack(0x9a),
        (0x06, 0x0f) if identity => rc::apdu(cf, &[0x31, 0x32, 0x33]),
        (0x06, 0x0f) => rc::apdu(cf, &[0x29]),
        // (the first field decodes, the second is cut short)
        (0x04, 0x0f) => rc::apdu(cf, &[0x27, 0x00, 0x04, 0x00]),
        (0x06, 0xd3) => rc::apdu(cf, &[0x06, 0x05, 0x1f]),
        _ => rc::apdu(cf, &[]),
    }
}

fn pkt_currency(p: &Pkt) -> Option<u64> {
    if p.pos.len() >= 6 {
        rc::bcd_val(&p.pos[4..6])
    } else {
        None
    }
}

impl Terminal for PtConn {
    fn on_bytes(&mut self, io: &mut TermIo<'_>) {
        while let Some(frame) = rc::take_frame(io.inbox) {
            let cf = (frame[0], frame[1]);
            if self.closed_idle {
                // written into a connection the terminal closed between two exchanges: lost
                io.note(format!("frame {} lost: the terminal had closed this connection while idle", crate::conn::hex(&frame[..frame.len().min(8)])));
                continue;
            }
            if matches!(self.st, St::Dead) || self.silent {
                // still recorded: a frame on a connection that saw a failure
                let mut pt = self.pt.lock().unwrap();
                let seq = io.seq();
                let t_ms = io.now_ms();
                let op = pt.current_op;
                pt.requests.push(ReqLog {
                    conn: self.conn,
                    seq,
                    t_ms,
                    frame: frame.clone(),
                    pkt: None,
                    op,
                    issued_receipt: None,
                    offered_receipt: None,
                    status_sent: None,
                    completed: None,
                    dangling_reported: None,
                    final_acked: false,
                    listed_reported: vec![],
                    abort_sent: None,
                    open_dangling_at_arrival: vec![],
                    handshake: false,
                });
                let msg = format!("frame {} on a connection after its failure", crate::conn::hex(&frame));
                pt.anomalies.push((seq, self.conn, msg));
                continue;
            }
            let st = std::mem::replace(&mut self.st, St::Idle);
            match st {
                St::AwaitAck { rest, req, completes } => {
                    if frame[..] == rc::ACK {
                        let (during, close_now) = {
                            let pt = self.pt.lock().unwrap();
                            let f = &pt.requests[req].frame;
                            ((f[0], f[1]), pt.spec.close_after_each_exchange && !pt.requests[req].handshake)
                        };
                        if rest.is_empty() {
                            self.st = St::Idle;
                            self.pt.lock().unwrap().requests[req].final_acked = true;
                            if close_now {
                                io.note(format!("terminal closes c{} after the exchange", self.conn));
                                self.closed_idle = true;
                                io.close(CloseKind::Eof);
                            } else if self.close_when_idle {
                                self.close_when_idle = false;
                                self.closed_idle = true;
                                io.close(CloseKind::Eof);
                            }
                        } else {
                            self.advance(io, rest, req, completes, during, false);
                        }
                        continue;
                    }
                    // anything else while a reply is outstanding: the client stacked a
                    // frame onto an unfinished exchange
                    self.anomaly(
                        io,
                        format!(
                            "frame {} arrived while the exchange of request #{req} was unfinished (terminal still owed {} packet(s) or awaited an acknowledgement)",
                            crate::conn::hex(&frame),
                            rest.len()
                        ),
                    );
                    // fall through: treat it as a new command
                }
                St::Idle => {}
                St::Dead => unreachable!(),
            }
            if cf == (0x80, 0x00) {
                self.anomaly(io, "acknowledgement while no packet was outstanding".to_string());
                continue;
            }
            let pkt = Pkt::decode(&frame);
            let req = {
                let mut pt = self.pt.lock().unwrap();
                let seq = io.seq();
                let t_ms = io.now_ms();
                let op = pt.current_op;
                pt.requests.push(ReqLog {
                    conn: self.conn,
                    seq,
                    t_ms,
                    frame: frame.clone(),
                    pkt: pkt.clone().ok(),
                    op,
                    issued_receipt: None,
                    offered_receipt: None,
                    status_sent: None,
                    completed: None,
                    dangling_reported: None,
                    final_acked: false,
                    listed_reported: vec![],
                    abort_sent: None,
                    open_dangling_at_arrival: vec![],
                    handshake: false,
                });
                let n = pt.requests.len() - 1;
                // handshake frames: a Registration, and the identity request that follows it
                let hs = cf == (0x06, 0x00) || (cf == (0x0f, 0xa1) && self.expect_identity);
                self.expect_identity = cf == (0x06, 0x00);
                self.cur_handshake = hs;
                pt.requests[n].handshake = hs;
                n
            };
            match pkt {
                Err(e) => {
                    // a frame the reference codec has no layout for: noted (the oracles that need the
                    // decoded request will say so), acknowledged and completed like an unknown command
                    io.note(format!("command {} not decodable by the reference codec: {e}", crate::conn::hex(&frame[..frame.len().min(16)])));
                    let script: VecDeque<Emit> = vec![
                        Emit { frame: rc::ACK.to_vec(), delay_ms: 0, identity: false, effect: Effect::None },
                        Emit { frame: rc::completion(), delay_ms: 0, identity: false, effect: Effect::None },
                    ]
                    .into();
                    self.advance(io, script, req, true, cf, true);
                }
                Ok(p) => {
                    let (script, completes) = self.script(&p, req);
                    self.advance(io, script.into(), req, completes, cf, true);
                }
            }
        }
    }

    fn on_drop(&mut self, _io: &mut TermIo<'_>) {}
}
