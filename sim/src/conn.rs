//! SimConn: the in-memory duplex connection both engines hand to the real
//! code in place of a TCP socket. Everything it does is decided by the plan:
//! how many bytes a read returns, when a read or write is `Pending`, short
//! writes, injected errors, end of stream. Every call is appended to the
//! run's event log.
use crate::rng::{Hasher64, Rng};
use serde::{Deserialize, Serialize};
use std::collections::VecDeque;
use std::future::Future;
use std::io;
use std::pin::Pin;
use std::sync::{Arc, Mutex};
use std::task::{Context, Poll, Waker};
use tokio::io::{AsyncRead, AsyncWrite, ReadBuf};

#[derive(Clone, Copy, Debug, Serialize, Deserialize, PartialEq, Eq)]
pub enum ChunkMode {
    /// As much as the caller's buffer takes.
    Whole,
    /// One byte per call.
    One,
    /// 1..=max bytes per call, drawn from the schedule stream.
    Random(u16),
}

/// Schedule knobs of one connection. Part of the plan (serialised into the
/// replay file). The explicit lists are consumed first; then `*_mode` decides.
#[derive(Clone, Debug, Serialize, Deserialize, PartialEq)]
pub struct Sched {
    pub seed: u64,
    pub read_list: Vec<u32>,
    pub read_mode: ChunkMode,
    pub read_pending_pct: u8,
    pub write_list: Vec<u32>,
    pub write_mode: ChunkMode,
    pub write_pending_pct: u8,
}

impl Sched {
    pub fn whole() -> Self {
        Sched {
            seed: 0,
            read_list: vec![],
            read_mode: ChunkMode::Whole,
            read_pending_pct: 0,
            write_list: vec![],
            write_mode: ChunkMode::Whole,
            write_pending_pct: 0,
        }
    }

    pub fn one_byte() -> Self {
        Sched {
            read_mode: ChunkMode::One,
            write_mode: ChunkMode::One,
            ..Sched::whole()
        }
    }

    /// A schedule drawn from `rng` (swarm style: each knob varies per run).
    pub fn random(rng: &mut Rng) -> Self {
        let mode = |rng: &mut Rng| match rng.below(4) {
            0 => ChunkMode::Whole,
            1 => ChunkMode::One,
            2 => ChunkMode::Random(3),
            _ => ChunkMode::Random(*rng.pick(&[2u16, 5, 8, 17, 64, 300])),
        };
        Sched {
            seed: rng.next_u64(),
            read_list: vec![],
            read_mode: mode(rng),
            read_pending_pct: *rng.pick(&[0u8, 0, 10, 30, 60]),
            write_list: vec![],
            write_mode: mode(rng),
            write_pending_pct: *rng.pick(&[0u8, 0, 10, 30]),
        }
    }

    pub fn is_trivial(&self) -> bool {
        self.read_list.is_empty()
            && self.write_list.is_empty()
            && self.read_mode == ChunkMode::Whole
            && self.write_mode == ChunkMode::Whole
            && self.read_pending_pct == 0
            && self.write_pending_pct == 0
    }
}

#[derive(Clone, Copy, Debug, Serialize, Deserialize, PartialEq, Eq)]
pub enum CloseKind {
    /// Orderly end of stream: reads return 0 bytes.
    Eof,
    /// Reads fail with ECONNRESET.
    Reset,
}

#[derive(Clone, Debug, PartialEq)]
pub enum Ev {
    Open,
    Read(u32),
    ReadWait,
    ReadSpurious,
    ReadEof,
    ReadErr,
    Write(Vec<u8>),
    WriteSpurious,
    WriteErr,
    Flush,
    Shutdown,
    Drop,
    Release(u32),
    Close(CloseKind),
    Note(String),
}

#[derive(Clone, Debug)]
pub struct Entry {
    pub conn: u16,
    pub t_ms: u64,
    /// Terminal bytes the client had consumed on this connection before the event.
    pub cursor: u64,
    pub ev: Ev,
}

/// The run-global event log; `entries` index is the global sequence number.
#[derive(Default)]
pub struct Log {
    pub entries: Vec<Entry>,
    pub t0: Option<tokio::time::Instant>,
}

impl Log {
    pub fn now_ms(&self) -> u64 {
        match self.t0 {
            Some(t0) => tokio::time::Instant::now().duration_since(t0).as_millis() as u64,
            None => 0,
        }
    }

    pub fn push(&mut self, conn: u16, cursor: u64, ev: Ev) {
        let t_ms = self.now_ms();
        self.entries.push(Entry {
            conn,
            t_ms,
            cursor,
            ev,
        });
    }

    pub fn note(&mut self, s: impl Into<String>) {
        self.push(u16::MAX, 0, Ev::Note(s.into()));
    }

    /// Hash of the complete event stream (determinism / replay identity).
    pub fn hash(&self) -> u64 {
        self.hash_masking(0)
    }

    /// Like `hash`, but the content of the first `mask_until` bytes written on
    /// connection 0 is ignored (only the write sizes count). Used where those
    /// bytes legitimately depend on per-process hash-map order.
    pub fn hash_masking(&self, mask_until: usize) -> u64 {
        let mut h = Hasher64::default();
        let mut woff = 0usize;
        for e in &self.entries {
            h.u64(e.conn as u64);
            h.u64(e.t_ms);
            h.u64(e.cursor);
            match &e.ev {
                Ev::Open => h.u8(1),
                Ev::Read(n) => {
                    h.u8(2);
                    h.u64(*n as u64)
                }
                Ev::ReadWait => h.u8(3),
                Ev::ReadSpurious => h.u8(4),
                Ev::ReadEof => h.u8(5),
                Ev::ReadErr => h.u8(6),
                Ev::Write(b) => {
                    h.u8(7);
                    if e.conn == 0 && woff < mask_until {
                        h.u64(b.len() as u64);
                    } else {
                        h.bytes(b);
                    }
                    if e.conn == 0 {
                        woff += b.len();
                    }
                }
                Ev::WriteSpurious => h.u8(8),
                Ev::WriteErr => h.u8(9),
                Ev::Flush => h.u8(10),
                Ev::Shutdown => h.u8(11),
                Ev::Drop => h.u8(12),
                Ev::Release(n) => {
                    h.u8(13);
                    h.u64(*n as u64)
                }
                Ev::Close(k) => {
                    h.u8(14);
                    h.u8(*k as u8)
                }
                Ev::Note(s) => {
                    h.u8(15);
                    h.str(s)
                }
            }
        }
        h.finish()
    }

    pub fn render(&self) -> Vec<String> {
        self.entries
            .iter()
            .enumerate()
            .map(|(i, e)| {
                let c = if e.conn == u16::MAX {
                    "-".to_string()
                } else {
                    format!("c{}", e.conn)
                };
                let ev = match &e.ev {
                    Ev::Write(b) => format!("Write({})", hex(b)),
                    other => format!("{:?}", other),
                };
                format!("#{i} t={}ms {c} cur={} {ev}", e.t_ms, e.cursor)
            })
            .collect()
    }
}

pub fn hex(b: &[u8]) -> String {
    let mut s = String::with_capacity(b.len() * 2);
    for x in b.iter().take(96) {
        s.push_str(&format!("{:02x}", x));
    }
    if b.len() > 96 {
        s.push_str(&format!("..(+{})", b.len() - 96));
    }
    s
}

pub type SharedLog = Arc<Mutex<Log>>;

/// The environment on the other end of a connection (the simulated terminal).
pub trait Terminal: Send {
    /// Called after client bytes were appended to `io.inbox`.
    fn on_bytes(&mut self, io: &mut TermIo<'_>);
    /// Called by the wire engine when the client is blocked and nothing is
    /// deliverable; returns true if it released something.
    fn on_idle(&mut self, _io: &mut TermIo<'_>) -> bool {
        false
    }
    /// Called when the client drops the connection.
    fn on_drop(&mut self, _io: &mut TermIo<'_>) {}
}

struct Delayed {
    deadline: tokio::time::Instant,
    bytes: Vec<u8>,
    close: Option<CloseKind>,
}

struct Out {
    avail: VecDeque<u8>,
    delayed: VecDeque<Delayed>,
    last_deadline: Option<tokio::time::Instant>,
    closed: Option<CloseKind>,
    write_fail: bool,
    /// The peer has stopped reading: writes stay pending for ever.
    write_block: bool,
    released_total: u64,
    /// The next read fails once with this kind; the stream itself goes on.
    read_err_once: Option<io::ErrorKind>,
}

/// What a terminal may do to its connection.
pub struct TermIo<'a> {
    pub inbox: &'a mut Vec<u8>,
    pub conn: u16,
    pub cursor: u64,
    out: &'a mut Out,
    log: &'a mut Log,
    wake: &'a mut bool,
}

impl<'a> TermIo<'a> {
    pub fn release(&mut self, bytes: &[u8]) {
        if self.out.closed.is_some() || bytes.is_empty() {
            return;
        }
        if !self.out.delayed.is_empty() {
            // Keep order behind delayed data.
            self.release_after(0, bytes);
            return;
        }
        self.out.avail.extend(bytes.iter().copied());
        self.out.released_total += bytes.len() as u64;
        self.log
            .push(self.conn, self.cursor, Ev::Release(bytes.len() as u32));
        *self.wake = true;
    }

    /// Releases `bytes` `delay_ms` virtual milliseconds after the previously
    /// scheduled release (client engine only: needs a tokio clock).
    pub fn release_after(&mut self, delay_ms: u64, bytes: &[u8]) {
        if delay_ms == 0 && self.out.delayed.is_empty() {
            return self.release(bytes);
        }
        let now = tokio::time::Instant::now();
        let base = match self.out.last_deadline {
            Some(d) if d > now => d,
            _ => now,
        };
        let deadline = base + std::time::Duration::from_millis(delay_ms);
        self.out.last_deadline = Some(deadline);
        self.out.delayed.push_back(Delayed {
            deadline,
            bytes: bytes.to_vec(),
            close: None,
        });
        *self.wake = true;
    }

    /// Ends the terminal -> client direction after everything released so far.
    pub fn close(&mut self, kind: CloseKind) {
        if !self.out.delayed.is_empty() {
            let deadline = self.out.last_deadline.unwrap();
            self.out.delayed.push_back(Delayed {
                deadline,
                bytes: vec![],
                close: Some(kind),
            });
            return;
        }
        if self.out.closed.is_none() {
            self.out.closed = Some(kind);
            self.log.push(self.conn, self.cursor, Ev::Close(kind));
            *self.wake = true;
        }
    }

    /// From now on client writes fail with EPIPE.
    pub fn fail_writes(&mut self) {
        self.out.write_fail = true;
    }

    /// From now on the peer does not read any more: client writes stay pending for ever.
    pub fn block_writes(&mut self) {
        self.out.write_block = true;
    }

    pub fn note(&mut self, s: impl Into<String>) {
        self.log.push(self.conn, self.cursor, Ev::Note(s.into()));
    }

    pub fn released_total(&self) -> u64 {
        self.out.released_total
    }

    /// Index the next event-log entry will get (global sequence number).
    pub fn seq(&self) -> usize {
        self.log.entries.len()
    }

    pub fn now_ms(&self) -> u64 {
        self.log.now_ms()
    }

    pub fn is_closed(&self) -> bool {
        self.out.closed.is_some()
    }

    /// The client's next read fails once with `kind` (a transient error: EINTR, EAGAIN, ETIMEDOUT).
    pub fn fail_read_once(&mut self, kind: io::ErrorKind) {
        self.out.read_err_once = Some(kind);
        *self.wake = true;
    }

    /// Is a delayed release still waiting for its (virtual) time?
    pub fn has_delayed(&self) -> bool {
        !self.out.delayed.is_empty()
    }
}

struct State {
    id: u16,
    sched: Sched,
    srng: Rng,
    read_i: usize,
    write_i: usize,
    last_read_spurious: bool,
    last_write_spurious: bool,
    cursor: u64,
    written: Vec<u8>,
    inbox: Vec<u8>,
    out: Out,
    terminal: Option<Box<dyn Terminal>>,
    read_waker: Option<Waker>,
    sleep: Option<Pin<Box<tokio::time::Sleep>>>,
    /// Transient read errors: when the read cursor stands at `.0`, the next read fails once with
    /// this kind (EINTR, EAGAIN, ETIMEDOUT ...); the connection itself stays usable.
    read_errs: Vec<(u64, io::ErrorKind)>,
    /// Transient write errors: when the client has written `.0` bytes on this connection, the next
    /// write fails once with this kind; writes never run across such a position (so a frame that
    /// straddles it goes out as a short write, then the error).
    write_errs: Vec<(u64, io::ErrorKind)>,
    dropped: bool,
    log: SharedLog,
    /// Counters of schedule/fault elements that actually fired.
    pub fired: Fired,
}

#[derive(Clone, Debug, Default)]
pub struct Fired {
    pub partial_reads: u64,
    pub spurious_pending: u64,
    pub short_writes: u64,
    pub read_waits: u64,
    pub eof: u64,
    pub reset: u64,
    pub write_err: u64,
    pub read_err_once: u64,
    pub write_err_once: u64,
}

impl State {
    fn with_terminal(&mut self, f: impl FnOnce(&mut dyn Terminal, &mut TermIo<'_>) -> bool) -> bool {
        let Some(mut term) = self.terminal.take() else {
            return false;
        };
        let mut wake = false;
        let r;
        {
            let mut log = self.log.lock().unwrap();
            let mut io = TermIo {
                inbox: &mut self.inbox,
                conn: self.id,
                cursor: self.cursor,
                out: &mut self.out,
                log: &mut log,
                wake: &mut wake,
            };
            r = f(term.as_mut(), &mut io);
        }
        self.terminal = Some(term);
        if wake {
            if let Some(w) = self.read_waker.take() {
                w.wake();
            }
        }
        r
    }

    fn log(&self, ev: Ev) {
        self.log.lock().unwrap_or_else(|e| e.into_inner()).push(self.id, self.cursor, ev);
    }

    fn next_read_chunk(&mut self) -> usize {
        if self.read_i < self.sched.read_list.len() {
            let n = self.sched.read_list[self.read_i] as usize;
            self.read_i += 1;
            return n.max(1);
        }
        match self.sched.read_mode {
            ChunkMode::Whole => usize::MAX,
            ChunkMode::One => 1,
            ChunkMode::Random(max) => 1 + self.srng.usize_below(max as usize),
        }
    }

    fn next_write_quota(&mut self) -> usize {
        if self.write_i < self.sched.write_list.len() {
            let n = self.sched.write_list[self.write_i] as usize;
            self.write_i += 1;
            return n.max(1);
        }
        match self.sched.write_mode {
            ChunkMode::Whole => usize::MAX,
            ChunkMode::One => 1,
            ChunkMode::Random(max) => 1 + self.srng.usize_below(max as usize),
        }
    }

    /// Moves delayed releases whose time has come into `avail`.
    fn fire_due(&mut self) {
        if self.out.delayed.is_empty() {
            return;
        }
        let now = tokio::time::Instant::now();
        while let Some(head) = self.out.delayed.front() {
            if head.deadline > now {
                break;
            }
            let d = self.out.delayed.pop_front().unwrap();
            if self.out.closed.is_some() {
                continue;
            }
            if !d.bytes.is_empty() {
                self.out.avail.extend(d.bytes.iter().copied());
                self.out.released_total += d.bytes.len() as u64;
                self.log(Ev::Release(d.bytes.len() as u32));
            }
            if let Some(k) = d.close {
                self.out.closed = Some(k);
                self.log(Ev::Close(k));
            }
        }
        self.sleep = None;
    }
}

/// The client's end of the connection.
pub struct SimConn {
    st: Arc<Mutex<State>>,
}

/// The simulator's handle on the same connection.
#[derive(Clone)]
pub struct ConnHandle {
    st: Arc<Mutex<State>>,
}

pub fn sim_conn(
    id: u16,
    sched: Sched,
    terminal: Box<dyn Terminal>,
    log: SharedLog,
) -> (SimConn, ConnHandle) {
    let srng = Rng::new(sched.seed ^ 0x5eed_c0de);
    let st = Arc::new(Mutex::new(State {
        id,
        sched,
        srng,
        read_i: 0,
        write_i: 0,
        last_read_spurious: false,
        last_write_spurious: false,
        cursor: 0,
        written: Vec::new(),
        inbox: Vec::new(),
        out: Out {
            avail: VecDeque::new(),
            delayed: VecDeque::new(),
            last_deadline: None,
            closed: None,
            read_err_once: None,
            write_fail: false,
            write_block: false,
            released_total: 0,
        },
        terminal: Some(terminal),
        read_waker: None,
        sleep: None,
        read_errs: Vec::new(),
        write_errs: Vec::new(),
        dropped: false,
        log,
        fired: Fired::default(),
    }));
    (SimConn { st: st.clone() }, ConnHandle { st })
}

impl ConnHandle {
    pub fn cursor(&self) -> u64 {
        self.st.lock().unwrap().cursor
    }
    pub fn written_len(&self) -> usize {
        self.st.lock().unwrap().written.len()
    }
    pub fn written(&self) -> Vec<u8> {
        self.st.lock().unwrap().written.clone()
    }
    pub fn unread(&self) -> Vec<u8> {
        self.st.lock().unwrap().out.avail.iter().copied().collect()
    }
    pub fn released_total(&self) -> u64 {
        self.st.lock().unwrap().out.released_total
    }
    pub fn dropped(&self) -> bool {
        self.st.lock().unwrap().dropped
    }
    pub fn fired(&self) -> Fired {
        self.st.lock().unwrap().fired.clone()
    }
    /// Plans transient read errors (see `State::read_errs`).
    pub fn set_read_errors(&self, v: Vec<(u64, io::ErrorKind)>) {
        self.st.lock().unwrap().read_errs = v;
    }
    /// Plans transient write errors (see `State::write_errs`).
    pub fn set_write_errors(&self, v: Vec<(u64, io::ErrorKind)>) {
        self.st.lock().unwrap().write_errs = v;
    }
    /// The next read fails once with `kind`, wherever the cursor stands.
    pub fn fail_next_read(&self, kind: io::ErrorKind) {
        let mut st = self.st.lock().unwrap();
        let c = st.cursor;
        st.read_errs.push((c, kind));
    }
    /// Wire engine: the client is blocked; let the terminal act.
    pub fn idle(&self) -> bool {
        let mut st = self.st.lock().unwrap();
        st.with_terminal(|t, io| t.on_idle(io))
    }
    /// Lets the harness push bytes / close from outside a terminal callback.
    pub fn with_io(&self, f: impl FnOnce(&mut TermIo<'_>)) {
        let mut st = self.st.lock().unwrap();
        let mut wake = false;
        {
            let st = &mut *st;
            let mut log = st.log.lock().unwrap();
            let mut io = TermIo {
                inbox: &mut st.inbox,
                conn: st.id,
                cursor: st.cursor,
                out: &mut st.out,
                log: &mut log,
                wake: &mut wake,
            };
            f(&mut io);
        }
        if wake {
            if let Some(w) = st.read_waker.take() {
                w.wake();
            }
        }
    }
}

impl AsyncRead for SimConn {
    fn poll_read(
        self: Pin<&mut Self>,
        cx: &mut Context<'_>,
        buf: &mut ReadBuf<'_>,
    ) -> Poll<io::Result<()>> {
        let mut st = self.st.lock().unwrap();
        st.fire_due();
        if let Some(kind) = st.out.read_err_once.take() {
            st.fired.read_err_once += 1;
            st.log(Ev::ReadErr);
            return Poll::Ready(Err(io::Error::new(kind, "sim: transient read error")));
        }
        if st.out.avail.is_empty() {
            if let Some(kind) = st.out.closed {
                return match kind {
                    CloseKind::Eof => {
                        st.fired.eof += 1;
                        st.log(Ev::ReadEof);
                        Poll::Ready(Ok(()))
                    }
                    CloseKind::Reset => {
                        st.fired.reset += 1;
                        st.log(Ev::ReadErr);
                        Poll::Ready(Err(io::Error::new(
                            io::ErrorKind::ConnectionReset,
                            "sim: connection reset by peer",
                        )))
                    }
                };
            }
            // Nothing to deliver: wait for a release (on a client write, on an
            // idle event, or when the head of the delayed queue is due).
            st.read_waker = Some(cx.waker().clone());
            if let Some(head) = st.out.delayed.front() {
                let deadline = head.deadline;
                let mut sleep = Box::pin(tokio::time::sleep_until(deadline));
                if sleep.as_mut().poll(cx).is_ready() {
                    // Due already (cannot normally happen after fire_due).
                    cx.waker().wake_by_ref();
                }
                st.sleep = Some(sleep);
            }
            st.fired.read_waits += 1;
            st.log(Ev::ReadWait);
            return Poll::Pending;
        }
        if buf.remaining() == 0 {
            return Poll::Ready(Ok(()));
        }
        // a transient error planned for this cursor position
        let cur = st.cursor;
        if let Some(i) = st.read_errs.iter().position(|(c, _)| *c == cur) {
            let (_, kind) = st.read_errs.remove(i);
            st.fired.read_err_once += 1;
            st.log(Ev::ReadErr);
            return Poll::Ready(Err(io::Error::new(kind, "sim: transient read error")));
        }
        // Spurious Pending (never twice in a row, so progress is guaranteed).
        let pct = st.sched.read_pending_pct as u32;
        if pct > 0 && !st.last_read_spurious && st.srng.pct(pct) {
            st.last_read_spurious = true;
            st.fired.spurious_pending += 1;
            st.log(Ev::ReadSpurious);
            cx.waker().wake_by_ref();
            return Poll::Pending;
        }
        st.last_read_spurious = false;
        let chunk = st.next_read_chunk();
        let mut n = chunk.min(buf.remaining()).min(st.out.avail.len());
        // do not read across a position at which a transient error is planned
        let cur = st.cursor;
        if let Some(next) = st.read_errs.iter().map(|(c, _)| *c).filter(|c| *c > cur).min() {
            n = n.min((next - cur) as usize);
        }
        if n < buf.remaining() {
            st.fired.partial_reads += 1;
        }
        st.log(Ev::Read(n as u32));
        let mut left = n;
        while left > 0 {
            let k = {
                let (a, _) = st.out.avail.as_slices();
                let k = a.len().min(left);
                buf.put_slice(&a[..k]);
                k
            };
            st.out.avail.drain(..k);
            left -= k;
        }
        st.cursor += n as u64;
        Poll::Ready(Ok(()))
    }
}

impl AsyncWrite for SimConn {
    fn poll_write(
        self: Pin<&mut Self>,
        cx: &mut Context<'_>,
        buf: &[u8],
    ) -> Poll<io::Result<usize>> {
        let mut st = self.st.lock().unwrap();
        if st.out.write_block {
            // (no waker is kept: nothing will ever make room)
            st.log(Ev::WriteSpurious);
            return Poll::Pending;
        }
        if st.out.write_fail {
            st.fired.write_err += 1;
            st.log(Ev::WriteErr);
            return Poll::Ready(Err(io::Error::new(
                io::ErrorKind::BrokenPipe,
                "sim: broken pipe",
            )));
        }
        if buf.is_empty() {
            return Poll::Ready(Ok(0));
        }
        let pct = st.sched.write_pending_pct as u32;
        if pct > 0 && !st.last_write_spurious && st.srng.pct(pct) {
            st.last_write_spurious = true;
            st.fired.spurious_pending += 1;
            st.log(Ev::WriteSpurious);
            cx.waker().wake_by_ref();
            return Poll::Pending;
        }
        st.last_write_spurious = false;
        // a transient error planned for this position of the client's output
        let wl = st.written.len() as u64;
        if let Some(i) = st.write_errs.iter().position(|(c, _)| *c == wl) {
            let (_, kind) = st.write_errs.remove(i);
            st.fired.write_err_once += 1;
            st.log(Ev::WriteErr);
            return Poll::Ready(Err(io::Error::new(kind, "sim: transient write error")));
        }
        let quota = st.next_write_quota();
        let mut n = quota.min(buf.len());
        if let Some(next) = st.write_errs.iter().map(|(c, _)| *c).filter(|c| *c > wl).min() {
            n = n.min((next - wl) as usize);
        }
        if n < buf.len() {
            st.fired.short_writes += 1;
        }
        st.log(Ev::Write(buf[..n].to_vec()));
        st.written.extend_from_slice(&buf[..n]);
        st.inbox.extend_from_slice(&buf[..n]);
        st.with_terminal(|t, io| {
            t.on_bytes(io);
            true
        });
        Poll::Ready(Ok(n))
    }

    fn poll_flush(self: Pin<&mut Self>, _cx: &mut Context<'_>) -> Poll<io::Result<()>> {
        let st = self.st.lock().unwrap();
        st.log(Ev::Flush);
        Poll::Ready(Ok(()))
    }

    fn poll_shutdown(self: Pin<&mut Self>, _cx: &mut Context<'_>) -> Poll<io::Result<()>> {
        let st = self.st.lock().unwrap();
        st.log(Ev::Shutdown);
        Poll::Ready(Ok(()))
    }
}

impl Drop for SimConn {
    fn drop(&mut self) {
        let mut st = self.st.lock().unwrap_or_else(|e| e.into_inner());
        st.dropped = true;
        st.log(Ev::Drop);
        st.with_terminal(|t, io| {
            t.on_drop(io);
            true
        });
        st.sleep = None;
    }
}
