//! Wire engine: one exchange of one real command sequence against a scripted
//! terminal, compared event by event with the reference model of the
//! sequence layer (DESIGN.md 5.3). Shared by C05, C06 and C15.
use crate::conn::{sim_conn, CloseKind, ConnHandle, Ev, Log, Sched, SharedLog, TermIo, Terminal};
use crate::exec::{self, Outcome};
use crate::framework::{guarded, RunOut};
use crate::refcodec as rc;
use crate::rng::Hasher64;
use crate::seqs::{self, InParams, Recorded, SeqId};
use serde::{Deserialize, Serialize};
use std::sync::{Arc, Mutex};
use zvt::io::PacketTransport;

pub mod hexser {
    use serde::{Deserialize, Deserializer, Serializer};
    pub fn to_hex(b: &[u8]) -> String {
        let mut s = String::with_capacity(b.len() * 2);
        for x in b {
            s.push_str(&format!("{:02x}", x));
        }
        s
    }
    pub fn from_hex(s: &str) -> Result<Vec<u8>, String> {
        if s.len() % 2 != 0 {
            return Err("odd hex".into());
        }
        (0..s.len())
            .step_by(2)
            .map(|i| u8::from_str_radix(&s[i..i + 2], 16).map_err(|e| e.to_string()))
            .collect()
    }
    pub fn serialize<S: Serializer>(v: &Vec<u8>, s: S) -> Result<S::Ok, S::Error> {
        s.serialize_str(&to_hex(v))
    }
    pub fn deserialize<'de, D: Deserializer<'de>>(d: D) -> Result<Vec<u8>, D::Error> {
        let s = String::deserialize(d)?;
        from_hex(&s).map_err(serde::de::Error::custom)
    }
    pub mod vec {
        use serde::ser::SerializeSeq;
        use serde::{Deserialize, Deserializer, Serializer};
        pub fn serialize<S: Serializer>(v: &Vec<Vec<u8>>, s: S) -> Result<S::Ok, S::Error> {
            let mut seq = s.serialize_seq(Some(v.len()))?;
            for x in v {
                seq.serialize_element(&super::to_hex(x))?;
            }
            seq.end()
        }
        pub fn deserialize<'de, D: Deserializer<'de>>(d: D) -> Result<Vec<Vec<u8>>, D::Error> {
            let v = Vec::<String>::deserialize(d)?;
            v.iter()
                .map(|s| super::from_hex(s).map_err(serde::de::Error::custom))
                .collect()
        }
    }
}

#[derive(Clone, Copy, Debug, PartialEq, Eq, Serialize, Deserialize)]
pub enum Mode {
    /// Reply i+1 is released only after exactly one answer for reply i arrived.
    Lockstep,
    /// Everything (ack, replies, tail) is queued as soon as the command arrived.
    Eager,
    /// Like eager, but cut into segments released one at a time when the client blocks.
    Paced,
}

#[derive(Clone, Debug, PartialEq, Serialize, Deserialize)]
pub struct ExPlan {
    pub seq: SeqId,
    pub input: InParams,
    pub mode: Mode,
    pub sched: Sched,
    /// What the terminal sends at the acknowledgement point (normally 80 00 00).
    #[serde(with = "hexser")]
    pub ack: Vec<u8>,
    /// Reply frames in order (well-formed or not).
    #[serde(with = "hexser::vec")]
    pub replies: Vec<Vec<u8>>,
    /// Bytes queued behind the last reply.
    #[serde(with = "hexser")]
    pub tail: Vec<u8>,
    /// The terminal -> client stream ends after this many bytes.
    pub cut: Option<(u32, CloseKind)>,
    /// Index of the client frame (0 = command, k+1 = answer to reply k) whose
    /// write fails with EPIPE (and every write after it).
    pub epipe_at: Option<u32>,
    /// Paced mode: segment boundaries (byte offsets into the terminal stream).
    pub paced_cuts: Vec<u32>,
    /// Paced mode: segment k reaches the client this many virtual milliseconds after the client
    /// ran out of data (the last entry repeats; empty = at once). The sequences have no timer of
    /// their own, so a stall of the terminal must change nothing.
    #[serde(default)]
    pub paced_gaps_ms: Vec<u32>,
    /// Indices of replies that are malformed by the wire format itself (a length prefix or a
    /// fixed-width field cut off, a mandatory byte missing): the exchange must fail there even if
    /// the library's parser should accept the packet.
    #[serde(default)]
    pub malformed_replies: Vec<u32>,
    /// Every reply frame is the reference encoding of a legal packet of the command's reply set
    /// (set by the families that build their scripts from `seqs::reply_frame` only): while no fault is
    /// labelled, a parser that refuses one of them is wrong - the library is not asked for its opinion.
    #[serde(default)]
    pub wellformed: bool,
    /// Transient read errors: when the client's read cursor stands at byte `.0` of the terminal
    /// stream, one read fails with EINTR (0) / EAGAIN as an error (1) / ETIMEDOUT (2); no byte is
    /// lost and the connection stays usable. Two readings are accepted: the library carried on
    /// without losing its place (the run equals the run without the error), or the exchange failed
    /// there (valid prefix, one error, silence) - never a packet the terminal did not send.
    #[serde(default)]
    pub read_errs: Vec<(u32, u8)>,
    /// One transient write error: when the client has written `.0` bytes, the next write fails with
    /// EINTR (0) / EAGAIN as an error (1) / ETIMEDOUT (2); a frame that straddles the position goes out
    /// as a short write first. Two readings: the library carried on where it was (the run equals the
    /// run without the error), or the exchange failed there (its output is exactly the first `.0`
    /// bytes of the error-free output, the items a prefix plus one error) - never a byte twice.
    #[serde(default)]
    pub write_err: Option<(u32, u8)>,
    /// Label of the injected fault (for signatures / evidence).
    pub fault: String,
}

impl ExPlan {
    pub fn clean(seq: SeqId, input: InParams, replies: Vec<Vec<u8>>) -> Self {
        ExPlan {
            seq,
            input,
            mode: Mode::Lockstep,
            sched: Sched::whole(),
            ack: rc::ACK.to_vec(),
            replies,
            tail: vec![],
            cut: None,
            epipe_at: None,
            paced_cuts: vec![],
            paced_gaps_ms: vec![],
            malformed_replies: vec![],
            wellformed: false,
            read_errs: vec![],
            write_err: None,
            fault: String::new(),
        }
    }

    pub fn stream(&self) -> Vec<u8> {
        let mut s = self.ack.clone();
        for r in &self.replies {
            s.extend_from_slice(r);
        }
        s.extend_from_slice(&self.tail);
        s
    }
}

#[derive(Default)]
pub struct TermRecord {
    pub frames: Vec<Vec<u8>>,
    pub anomalies: Vec<String>,
}

/// The scripted terminal of the wire engine.
pub struct ScriptTerm {
    mode: Mode,
    /// ack, then each reply, then the tail: released piecewise.
    pieces: Vec<Vec<u8>>,
    n_replies: usize,
    cut: Option<(u32, CloseKind)>,
    epipe_at: Option<u32>,
    paced: Vec<Vec<u8>>,
    paced_gaps_ms: Vec<u32>,
    paced_next: usize,
    got_cmd: bool,
    next_piece: usize,
    outstanding: bool,
    released: u64,
    frames_seen: u32,
    ack_positive: bool,
    rec: Arc<Mutex<TermRecord>>,
}

impl ScriptTerm {
    pub fn new(plan: &ExPlan, rec: Arc<Mutex<TermRecord>>) -> Self {
        let mut pieces = vec![plan.ack.clone()];
        pieces.extend(plan.replies.iter().cloned());
        pieces.push(plan.tail.clone());
        let mut paced = vec![];
        if plan.mode == Mode::Paced {
            let s = plan.stream();
            let mut cuts: Vec<usize> = plan
                .paced_cuts
                .iter()
                .map(|c| (*c as usize).min(s.len()))
                .collect();
            cuts.sort();
            cuts.dedup();
            let mut prev = 0;
            for c in cuts {
                if c > prev {
                    paced.push(s[prev..c].to_vec());
                    prev = c;
                }
            }
            if prev < s.len() {
                paced.push(s[prev..].to_vec());
            }
        }
        ScriptTerm {
            mode: plan.mode,
            pieces,
            n_replies: plan.replies.len(),
            cut: plan.cut,
            epipe_at: plan.epipe_at,
            paced,
            paced_gaps_ms: plan.paced_gaps_ms.clone(),
            paced_next: 0,
            got_cmd: false,
            next_piece: 0,
            outstanding: false,
            released: 0,
            frames_seen: 0,
            ack_positive: plan.ack == rc::ACK || ack_carries_data(plan),
            rec,
        }
    }

    fn emit(&mut self, io: &mut TermIo<'_>, bytes: &[u8]) {
        self.emit_after(io, 0, bytes)
    }

    fn emit_after(&mut self, io: &mut TermIo<'_>, gap_ms: u64, bytes: &[u8]) {
        if io.is_closed() {
            return;
        }
        match self.cut {
            Some((at, kind)) => {
                let at = at as u64;
                let room = at.saturating_sub(self.released) as usize;
                let n = room.min(bytes.len());
                io.release_after(gap_ms, &bytes[..n]);
                self.released += n as u64;
                if self.released >= at {
                    io.close(kind);
                }
            }
            None => {
                io.release_after(gap_ms, bytes);
                self.released += bytes.len() as u64;
            }
        }
    }

    fn paced_gap(&self, k: usize) -> u64 {
        match self.paced_gaps_ms.get(k).or(self.paced_gaps_ms.last()) {
            Some(g) => *g as u64,
            None => 0,
        }
    }

    fn check_cut_at_zero(&mut self, io: &mut TermIo<'_>) {
        if let Some((0, kind)) = self.cut {
            io.close(kind);
        }
    }

    fn release_piece(&mut self, io: &mut TermIo<'_>) {
        if self.next_piece < self.pieces.len() {
            let p = self.pieces[self.next_piece].clone();
            self.next_piece += 1;
            self.emit(io, &p);
        }
    }
}

impl Terminal for ScriptTerm {
    fn on_bytes(&mut self, io: &mut TermIo<'_>) {
        while let Some(frame) = rc::take_frame(io.inbox) {
            self.frames_seen += 1;
            self.rec.lock().unwrap().frames.push(frame.clone());
            if let Some(k) = self.epipe_at {
                if self.frames_seen >= k {
                    io.fail_writes();
                }
            }
            if !self.got_cmd {
                self.got_cmd = true;
                self.check_cut_at_zero(io);
                match self.mode {
                    Mode::Lockstep => {
                        // acknowledgement, then the first reply without waiting
                        self.release_piece(io);
                        if self.ack_positive {
                            if self.n_replies > 0 {
                                self.release_piece(io);
                                self.outstanding = true;
                                if self.next_piece == 1 + self.n_replies {
                                    self.release_piece(io); // tail
                                }
                            } else {
                                self.release_piece(io);
                            }
                        } else {
                            // negative acknowledgement: queue the rest so that an
                            // over-reading client is visible
                            while self.next_piece < self.pieces.len() {
                                self.release_piece(io);
                            }
                        }
                    }
                    Mode::Eager => {
                        while self.next_piece < self.pieces.len() {
                            self.release_piece(io);
                        }
                    }
                    Mode::Paced => {
                        if let Some(p) = self.paced.get(self.paced_next).cloned() {
                            self.paced_next += 1;
                            self.emit(io, &p);
                        }
                    }
                }
                continue;
            }
            // an answer of the client
            if self.mode == Mode::Lockstep {
                if !self.outstanding {
                    let msg = format!(
                        "answer {} arrived while no packet was outstanding",
                        crate::conn::hex(&frame)
                    );
                    io.note(format!("anomaly: {msg}"));
                    self.rec.lock().unwrap().anomalies.push(msg);
                    continue;
                }
                self.outstanding = false;
                if self.next_piece < 1 + self.n_replies {
                    self.release_piece(io);
                    self.outstanding = true;
                    if self.next_piece == 1 + self.n_replies {
                        self.release_piece(io); // tail right behind the last reply
                    }
                }
            }
        }
    }

    fn on_idle(&mut self, io: &mut TermIo<'_>) -> bool {
        if self.mode != Mode::Paced || !self.got_cmd {
            return false;
        }
        if io.has_delayed() {
            // a segment is on its way: virtual time has to pass first
            return false;
        }
        if let Some(p) = self.paced.get(self.paced_next).cloned() {
            let gap = self.paced_gap(self.paced_next);
            self.paced_next += 1;
            let before = io.released_total();
            let was_closed = io.is_closed();
            self.emit_after(io, gap, &p);
            return io.released_total() != before || (io.is_closed() && !was_closed) || io.has_delayed();
        }
        false
    }
}

/// What the reference model predicts for a plan.
#[derive(Debug)]
pub struct Predicted {
    /// (frame, end offset in the terminal stream) of each packet that must be yielded as Ok.
    pub ok_frames: Vec<(Vec<u8>, u64)>,
    /// Ends with exactly one Err?
    pub error: Option<&'static str>,
    /// Answers the client must have written (after the command).
    pub answers: usize,
    /// The client must not consume beyond this offset.
    pub read_limit: u64,
    /// On a normal end the cursor must be exactly here.
    pub end_cursor: Option<u64>,
}

/// Reference model of the sequence layer over the planned terminal stream.
pub fn predict(plan: &ExPlan) -> Result<Predicted, (String, String)> {
    predict_with(plan, false)
}

/// An acknowledgement `80 00` that carries data: the statement does not say whether it counts as
/// positive. Both readings are accepted (see `run_and_judge`); in both the client must have
/// consumed exactly that packet.
pub fn ack_carries_data(plan: &ExPlan) -> bool {
    plan.ack.len() > 3 && plan.ack[0] == 0x80 && plan.ack[1] == 0x00 && rc::frame_dims(&plan.ack).map(|(h, l)| h + l == plan.ack.len()).unwrap_or(false)
}

pub fn predict_with(plan: &ExPlan, ack_with_data_is_positive: bool) -> Result<Predicted, (String, String)> {
    let info = seqs::info(plan.seq);
    let full = plan.stream();
    let avail: &[u8] = match plan.cut {
        Some((at, _)) => &full[..(at as usize).min(full.len())],
        None => &full,
    };
    let mut p = Predicted {
        ok_frames: vec![],
        error: None,
        answers: 0,
        read_limit: 0,
        end_cursor: None,
    };
    if plan.epipe_at == Some(0) {
        p.error = Some("command_write_failed");
        return Ok(p);
    }
    let mut pos = 0usize;
    let next = |pos: usize| -> Option<&[u8]> {
        let (h, l) = rc::frame_dims(&avail[pos..])?;
        if avail.len() - pos < h + l {
            return None;
        }
        Some(&avail[pos..pos + h + l])
    };
    // acknowledgement point
    let Some(frame) = next(pos) else {
        p.error = Some("stream_ended_before_ack");
        p.read_limit = avail.len() as u64;
        return Ok(p);
    };
    pos += frame.len();
    p.read_limit = pos as u64;
    if frame != rc::ACK && !(ack_with_data_is_positive && ack_carries_data(plan) && frame == &plan.ack[..]) {
        p.error = Some("negative_ack");
        return Ok(p);
    }
    let mut k = 0u32;
    loop {
        let Some(frame) = next(pos) else {
            p.error = Some("stream_ended_mid_exchange");
            p.read_limit = avail.len() as u64;
            return Ok(p);
        };
        let cf = rc::frame_cf(frame);
        pos += frame.len();
        p.read_limit = pos as u64;
        if !info.in_alphabet(cf) {
            if seqs::library_extends_reply_set(plan.seq, frame) {
                p.error = Some("reply_set_extended_by_library");
                return Ok(p);
            }
            p.error = Some("foreign_control_field");
            return Ok(p);
        }
        if plan.malformed_replies.contains(&k) || !seqs::library_parses(plan.seq, frame)? {
            p.error = Some(if plan.wellformed && plan.fault.is_empty() && !plan.malformed_replies.contains(&k) {
                "wellformed_reply_refused"
            } else {
                "undecodable_body"
            });
            return Ok(p);
        }
        if plan.epipe_at == Some(k + 1) {
            p.error = Some("answer_write_failed");
            return Ok(p);
        }
        p.answers += 1;
        p.ok_frames.push((frame.to_vec(), pos as u64));
        if info.is_final(cf) {
            p.end_cursor = Some(pos as u64);
            return Ok(p);
        }
        k += 1;
    }
}

/// A plan is well-formed if the terminal stream either carries the exchange
/// to its end (normal or failed) or is explicitly closed.
pub fn well_formed(plan: &ExPlan) -> bool {
    match predict(plan) {
        Ok(p) => {
            !(matches!(p.error, Some("stream_ended_before_ack") | Some("stream_ended_mid_exchange"))
                && plan.cut.is_none())
        }
        Err(_) => true,
    }
}

pub struct ExRun {
    pub outcome: &'static str,
    pub polls: u64,
    pub rec: Recorded,
    pub term: TermRecord,
    pub handle: ConnHandle,
    pub log: SharedLog,
    pub panic: Option<(String, String)>,
}

/// Executes the real sequence for `plan` on the wire engine.
pub fn execute(plan: &ExPlan) -> ExRun {
    let log: SharedLog = Arc::new(Mutex::new(Log::default()));
    let trec = Arc::new(Mutex::new(TermRecord::default()));
    let term = ScriptTerm::new(plan, trec.clone());
    let (conn, handle) = sim_conn(0, plan.sched.clone(), Box::new(term), log.clone());
    let rec: seqs::Rec = Arc::new(Mutex::new(Recorded::default()));
    if !plan.read_errs.is_empty() {
        handle.set_read_errors(
            plan.read_errs
                .iter()
                .map(|(off, k)| {
                    (*off as u64, match k {
                        0 => std::io::ErrorKind::Interrupted,
                        1 => std::io::ErrorKind::WouldBlock,
                        _ => std::io::ErrorKind::TimedOut,
                    })
                })
                .collect(),
        );
    }
    if let Some((off, k)) = plan.write_err {
        handle.set_write_errors(vec![(off as u64, match k {
            0 => std::io::ErrorKind::Interrupted,
            1 => std::io::ErrorKind::WouldBlock,
            _ => std::io::ErrorKind::TimedOut,
        })]);
    }
    if plan.epipe_at == Some(0) {
        handle.with_io(|io| io.fail_writes());
    }
    let mut pt = PacketTransport { source: conn };
    let max_items = plan.replies.len() + 8;
    let res = {
        let rec = rec.clone();
        let h = handle.clone();
        let log2 = log.clone();
        let idle_h = handle.clone();
        guarded(move || {
            let fut = seqs::drive(plan.seq, &plan.input, &mut pt, rec, h, log2, max_items);
            // a livelock guard only: a client that wakes up every 100 ms of a one-hour stall is fine
            let budget = 2_000_000 + 40 * (plan.stream().len() as u64 + 64);
            let (out, polls) = exec::run(fut, || idle_h.idle(), budget);
            let o = match out {
                Outcome::Done(()) => "done",
                Outcome::Stuck => "stuck",
                Outcome::PollLimit => "poll_limit",
            };
            (o, polls)
        })
    };
    let (outcome, polls, panic) = match res {
        Ok((o, p)) => (o, p, None),
        Err(pn) => ("panic", 0, Some(pn)),
    };
    let rec = std::mem::take(&mut *rec.lock().unwrap());
    let term = std::mem::take(&mut *trec.lock().unwrap());
    ExRun {
        outcome,
        polls,
        rec,
        term,
        handle,
        log,
        panic,
    }
}

/// Runs the plan and judges it against the reference model.
/// Silence (accumulated) from which on a reader may legitimately give an exchange up.
pub const STALL_MS: u64 = 200;

/// Offsets of the terminal stream in front of which a paced terminal has been silent for STALL_MS or more in sum.
/// The sequences have no timer, so a stall changes nothing - but a library that gives a started
/// exchange up after some time of silence (an inter-character time-out, say) breaks no property
/// either: at each such offset "one error, nothing more" is an acceptable second reading.
pub fn long_stall_offsets(plan: &ExPlan) -> Vec<u32> {
    if plan.mode != Mode::Paced || plan.paced_gaps_ms.is_empty() {
        return vec![];
    }
    let len = plan.stream().len();
    let mut cuts: Vec<usize> = plan.paced_cuts.iter().map(|c| (*c as usize).min(len)).collect();
    cuts.sort();
    cuts.dedup();
    // segment k starts at starts[k]
    let mut starts = vec![0usize];
    for c in cuts {
        if c > *starts.last().unwrap() && c < len {
            starts.push(c);
        }
    }
    // (what counts is the silence accumulated so far, not the single gap: a deadline over the whole
    // acknowledgement - T3 - or over a packet expires where the sum crosses it; and the threshold is the
    // specification's own inter-character time-out T1 = 200 ms, below which nobody may give up)
    let mut out = vec![];
    let mut cum = 0u64;
    for (k, st) in starts.iter().enumerate() {
        let gap = plan.paced_gaps_ms.get(k).or(plan.paced_gaps_ms.last()).copied().unwrap_or(0);
        cum += gap as u64;
        if cum >= STALL_MS && gap > 0 {
            out.push(*st as u32);
        }
    }
    out
}

pub fn run_and_judge(plan: &ExPlan, want_trace: bool) -> RunOut {
    if let Some((off, _)) = plan.write_err {
        return judge_write_error(plan, off as usize, want_trace);
    }
    let mut readings: Vec<(bool, Option<u32>)> = vec![(false, None)];
    if ack_carries_data(plan) {
        readings.insert(0, (true, None));
    }
    for off in long_stall_offsets(plan) {
        if plan.cut.map(|c| c.0 > off).unwrap_or(true) {
            readings.push((false, Some(off)));
            if ack_carries_data(plan) {
                readings.push((true, Some(off)));
            }
        }
    }
    // a transient read error: carried on (the readings above), or the exchange failed at that offset
    if let Some(off) = plan.read_errs.iter().map(|(o, _)| *o).min() {
        if plan.cut.map(|c| c.0 > off).unwrap_or(true) && (off as usize) < plan.stream().len() - plan.tail.len() {
            readings.push((false, Some(off)));
            if ack_carries_data(plan) {
                readings.push((true, Some(off)));
            }
        }
    }
    let mut first: Option<RunOut> = None;
    for (ack_pos, gave_up) in readings {
        let mut r = run_and_judge_with(plan, want_trace, ack_pos, gave_up);
        if r.violations.is_empty() {
            if gave_up.is_some() {
                r.stats.hit("probe.gave_up_during_a_stall");
            }
            return r;
        }
        if first.is_none() {
            first = Some(r);
        }
    }
    first.unwrap()
}

/// A transient write error at byte `off` of the client's output (see `ExPlan::write_err`): the run is
/// compared with the run of the same plan without the error (which other families judge on its own).
fn judge_write_error(plan: &ExPlan, off: usize, want_trace: bool) -> RunOut {
    let mut clean = plan.clone();
    clean.write_err = None;
    let base = execute(&clean);
    let full = base.handle.written();
    let run = execute(plan);
    let mut out = RunOut::new();
    {
        let log = run.log.lock().unwrap();
        out.trace_hash = log.hash();
        if want_trace {
            out.trace = log.render();
        }
    }
    out.stats.add_fired(&run.handle.fired());
    out.nontrivial = true;
    let info = seqs::info(plan.seq);
    let mut sh = Hasher64::default();
    sh.str(info.name);
    sh.str("write_err");
    sh.u64(off as u64);
    out.shape = sh.finish();
    let sig = format!("{}/write_err", info.name);
    if let Some((loc, msg)) = &run.panic {
        out.fail("panic", format!("{}@{}", info.name, crate::framework::panic_sig(loc, msg)), format!("client panicked at {loc}: {msg}"));
        return out;
    }
    if base.panic.is_some() || base.outcome != "done" {
        return out; // the error-free run is somebody else's finding
    }
    let written = run.handle.written();
    let rec = &run.rec;
    let base_rec = &base.rec;
    let oks: Vec<&String> = rec.items.iter().filter_map(|i| i.res.as_ref().ok()).collect();
    let base_oks: Vec<&String> = base_rec.items.iter().filter_map(|i| i.res.as_ref().ok()).collect();
    let n_err = rec.items.iter().filter(|i| i.res.is_err()).count();
    let base_err = base_rec.items.iter().filter(|i| i.res.is_err()).count();
    if off >= full.len() || (written == full && oks == base_oks && n_err == base_err && run.outcome == "done") {
        // never reached, or reading 1: the library carried on where it was
        out.stats.hit("probe.write_error_carried_on_or_not_reached");
        return out;
    }
    // reading 2: the exchange failed there - not a byte beyond, not a byte twice
    if written[..] != full[..off] {
        out.fail(
            if written.len() > off { "bytes_written_twice_or_beyond" } else { "output_lost" },
            sig,
            format!(
                "a write failed transiently after {off} bytes of output; the client's output is {} ({} bytes) - neither the error-free output {} ({} bytes) nor its first {off} bytes",
                crate::conn::hex(&written[..written.len().min(40)]),
                written.len(),
                crate::conn::hex(&full[..full.len().min(40)]),
                full.len()
            ),
        );
        return out;
    }
    if run.outcome != "done" || n_err != 1 || rec.items.last().map(|i| i.res.is_ok()).unwrap_or(true) || oks.len() > base_oks.len() || oks.iter().zip(base_oks.iter()).any(|(a, b)| a != b) {
        out.fail(
            if n_err == 0 { "error_swallowed" } else { "error_repeated" },
            sig,
            format!("a write failed transiently after {off} bytes and the client stopped writing there: the exchange failed, so the caller gets the valid prefix and exactly one error (got {} ok, {} errors, outcome {})", oks.len(), n_err, run.outcome),
        );
    } else {
        out.stats.hit("probe.write_error_failed_the_exchange");
    }
    out
}

fn run_and_judge_with(plan: &ExPlan, want_trace: bool, ack_with_data_is_positive: bool, gave_up_at: Option<u32>) -> RunOut {
    let mut out = RunOut::new();
    // the prediction for "the client gave the exchange up when the terminal stalled at this offset"
    // is that of a stream that ends there; the execution is that of the plan as it is
    let as_planned = plan;
    let assumed;
    let plan = match gave_up_at {
        Some(off) => {
            let mut p2 = plan.clone();
            p2.cut = Some((off, CloseKind::Eof));
            assumed = p2;
            &assumed
        }
        None => plan,
    };
    let info = seqs::info(plan.seq);
    let sigbase = if plan.fault.is_empty() {
        format!("{}", info.name)
    } else {
        format!("{}/{}", info.name, plan.fault)
    };
    let pred = match predict_with(plan, ack_with_data_is_positive) {
        Ok(p) => {
            if matches!(p.error, Some("stream_ended_before_ack") | Some("stream_ended_mid_exchange")) && plan.cut.is_none() {
                eprintln!("HARNESS ERROR: ill-formed plan (terminal stream is incomplete but never closed): {:?}", plan);
                std::process::exit(2);
            }
            p
        }
        Err((loc, msg)) => {
            // The library's own parser panicked on a planned frame.
            out.fail(
                "panic",
                format!("{}@{}", info.name, crate::framework::panic_sig(&loc, &msg)),
                format!("reply parser panicked at {loc}: {msg}"),
            );
            return out;
        }
    };
    let run = execute(as_planned);
    let log = run.log.lock().unwrap();
    out.trace_hash = log.hash();
    if want_trace {
        out.trace = log.render();
    }
    let fired = run.handle.fired();
    out.stats.add_fired(&fired);
    out.nontrivial = !plan.sched.is_trivial() || !plan.fault.is_empty() || plan.mode != Mode::Lockstep;
    if !plan.fault.is_empty() {
        out.stats.hit(match pred.error {
            Some("negative_ack") => "fault.negative_ack",
            Some("foreign_control_field") => "fault.foreign_cf",
            Some("undecodable_body") => "fault.bad_body",
            Some("stream_ended_before_ack") | Some("stream_ended_mid_exchange") => "fault.stream_cut",
            Some("command_write_failed") | Some("answer_write_failed") => "fault.epipe",
            _ => "fault.absorbed_as_valid",
        });
    }
    // shape: sequence, mode, cf list of replies, error class, schedule class
    let mut sh = Hasher64::default();
    sh.str(info.name);
    sh.u8(plan.mode as u8);
    for r in &plan.replies {
        if r.len() >= 2 {
            sh.u8(r[0]);
            sh.u8(r[1]);
        }
    }
    sh.str(pred.error.unwrap_or("ok"));
    sh.str(&plan.fault);
    sh.bytes(&plan.ack[..plan.ack.len().min(2)]);
    sh.u8(match plan.sched.read_mode { crate::conn::ChunkMode::Whole => 0, crate::conn::ChunkMode::One => 1, crate::conn::ChunkMode::Random(_) => 2 });
    sh.u8((plan.sched.read_pending_pct > 0) as u8);
    sh.u8(matches!(plan.sched.write_mode, crate::conn::ChunkMode::Whole) as u8);
    out.shape = sh.finish();

    if let Some((loc, msg)) = &run.panic {
        out.fail(
            "panic",
            format!("{}@{}", info.name, crate::framework::panic_sig(loc, msg)),
            format!("client panicked at {loc}: {msg}"),
        );
        return out;
    }
    if pred.error == Some("wellformed_reply_refused") {
        let k = pred.ok_frames.len();
        let f = plan.replies.get(k).cloned().unwrap_or_default();
        out.fail(
            "wellformed_reply_refused",
            format!("{}/{:02x}{:02x}", info.name, f.first().copied().unwrap_or(0), f.get(1).copied().unwrap_or(0)),
            format!("reply {k} ({}) is the reference encoding of a legal packet of the reply set, but the library's parser refuses it", crate::conn::hex(&f[..f.len().min(48)])),
        );
        return out;
    }
    if pred.error == Some("reply_set_extended_by_library") {
        // not judged beyond "no panic": see seqs::library_extends_reply_set
        out.stats.hit("probe.reply_set_extended_by_library");
        return out;
    }
    if run.outcome != "done" {
        out.fail(
            "no_progress",
            format!("{sigbase}/{}", run.outcome),
            format!(
                "client {} after {} polls although the terminal had delivered everything the exchange needs (mode {:?})",
                run.outcome, run.polls, plan.mode
            ),
        );
        return out;
    }
    if run.rec.items.len() >= plan.replies.len() + 8 {
        out.fail("runaway", sigbase.clone(), "stream yields more items than the script has packets");
        return out;
    }

    // -- what the client wrote
    let written = run.handle.written();
    let mut wbuf = written.clone();
    let mut frames = vec![];
    while let Some(f) = rc::take_frame(&mut wbuf) {
        frames.push(f);
    }
    let expect_cmd = pred.error != Some("command_write_failed");
    if expect_cmd {
        match frames.first() {
            None => out.fail("command", sigbase.clone(), "no complete command frame was written"),
            Some(cmd) => {
                let want = seqs::ref_command(plan.seq, &plan.input);
                let ok = match rc::Pkt::decode(cmd) {
                    Ok(got) => match (got.canon(), want.canon()) {
                        (Ok(a), Ok(b)) => a == b,
                        _ => false,
                    },
                    Err(_) => false,
                };
                if !ok {
                    out.fail(
                        "command",
                        sigbase.clone(),
                        format!(
                            "command frame {} differs from reference encoding {}",
                            crate::conn::hex(cmd),
                            crate::conn::hex(&want.encode())
                        ),
                    );
                }
            }
        }
        let answers = &frames[frames.len().min(1)..];
        let bad = answers.iter().position(|a| a[..] != rc::ACK);
        if let Some(i) = bad {
            out.fail(
                "answer_form",
                sigbase.clone(),
                format!("answer {i} is {} instead of 80 00 00", crate::conn::hex(&answers[i])),
            );
        }
        if answers.len() != pred.answers || !wbuf.is_empty() {
            out.fail(
                if answers.len() > pred.answers { "extra_write" } else { "missing_answer" },
                sigbase.clone(),
                format!(
                    "client wrote {} answer(s) (+{} stray bytes), reference model: {} [{}]",
                    answers.len(),
                    wbuf.len(),
                    pred.answers,
                    pred.error.unwrap_or("normal end")
                ),
            );
        }
    }

    // -- cursor at every write: the command at 0, answer i at the end of packet i
    {
        let cmd_len = frames.first().map(|f| f.len()).unwrap_or(usize::MAX);
        let mut off = 0usize;
        for e in log.entries.iter() {
            if let Ev::Write(b) = &e.ev {
                let idx = if off < cmd_len { 0 } else { 1 + (off - cmd_len) / 3 };
                off += b.len();
                if idx == 0 {
                    if e.cursor != 0 {
                        out.fail("write_order", sigbase.clone(), "command bytes written after reading");
                    }
                } else if let Some((_, end)) = pred.ok_frames.get(idx - 1) {
                    if e.cursor != *end {
                        out.fail(
                            "answer_position",
                            sigbase.clone(),
                            format!(
                                "answer {} written with read cursor {} but packet {} ends at {}",
                                idx - 1,
                                e.cursor,
                                idx - 1,
                                end
                            ),
                        );
                    }
                }
            }
        }
    }

    // -- items
    let items = &run.rec.items;
    let n_ok = items.iter().take_while(|i| i.res.is_ok()).count();
    let n_err = items.iter().filter(|i| i.res.is_err()).count();
    let want_ok = pred.ok_frames.len();
    if n_ok != want_ok {
        out.fail(
            if n_ok < want_ok { "missing_item" } else { "extra_item" },
            sigbase.clone(),
            format!(
                "stream yielded {} packet(s) before its end/error, reference model: {} [{}]",
                n_ok,
                want_ok,
                pred.error.unwrap_or("normal end")
            ),
        );
    }
    let cmd_len = frames.first().map(|f| f.len()).unwrap_or(0);
    for (i, it) in items.iter().enumerate().take(n_ok.min(want_ok)) {
        let (frame, end) = &pred.ok_frames[i];
        let dbg = it.res.as_ref().unwrap();
        let own = seqs::own_decodes(frame);
        let verdict = seqs::item_matches_own_decode(dbg, frame);
        if verdict.is_none() {
            out.stats.hit("probe.item_not_comparable");
        }
        if verdict == Some(false) {
            out.fail(
                "item_content",
                sigbase.clone(),
                format!(
                    "item {i} is {dbg} but packet {} decodes on its own as {:?}",
                    crate::conn::hex(frame),
                    own
                ),
            );
        }
        if it.written_len != cmd_len + 3 * (i + 1) {
            out.fail(
                "ack_before_yield",
                sigbase.clone(),
                format!(
                    "item {i} handed to the caller with {} answer bytes written (expected {})",
                    it.written_len.saturating_sub(cmd_len),
                    3 * (i + 1)
                ),
            );
        }
        if it.cursor != *end {
            out.fail(
                "read_ahead",
                sigbase.clone(),
                format!("item {i} handed over at read cursor {} but the packet ends at {}", it.cursor, end),
            );
        }
    }
    match pred.error {
        None => {
            if n_err != 0 {
                let e = items.iter().find_map(|i| i.res.as_ref().err()).unwrap();
                out.fail("spurious_error", sigbase.clone(), format!("valid script ended in error: {e}"));
            }
        }
        Some(kind) => {
            if n_err != 1 {
                out.fail(
                    if n_err == 0 { "error_swallowed" } else { "error_repeated" },
                    format!("{sigbase}/{kind}"),
                    format!("failed exchange ({kind}) reported {n_err} errors, expected exactly one"),
                );
            } else if items.last().map(|i| i.res.is_ok()).unwrap_or(true) {
                out.fail(
                    "continued_after_error",
                    format!("{sigbase}/{kind}"),
                    "stream yielded packets after its error",
                );
            }
        }
    }
    if !run.rec.ended {
        out.fail("no_end", sigbase.clone(), "stream did not end");
    }
    if run.rec.after_end != 0 {
        out.fail("items_after_end", sigbase.clone(), "polling after the end produced items");
    }
    // nothing after the end
    let io_after_end = log.entries[run.rec.log_seq_at_end.min(log.entries.len())..]
        .iter()
        .any(|e| matches!(e.ev, Ev::Read(_) | Ev::Write(_) | Ev::ReadWait | Ev::ReadEof | Ev::ReadErr | Ev::WriteErr));
    if io_after_end {
        out.fail("io_after_end", sigbase.clone(), "I/O on the connection after the stream ended");
    }
    // write attempts after a failed write
    if let Some(first_err) = log.entries.iter().position(|e| matches!(e.ev, Ev::WriteErr)) {
        if log.entries[first_err + 1..]
            .iter()
            .any(|e| matches!(e.ev, Ev::WriteErr | Ev::Write(_)))
        {
            out.fail("write_after_failure", sigbase.clone(), "client kept writing after a write had failed");
        }
    }
    // read cursor
    let cursor = run.handle.cursor();
    match pred.end_cursor {
        Some(end) => {
            if cursor != end {
                out.fail(
                    if cursor > end { "over_read" } else { "under_read" },
                    sigbase.clone(),
                    format!("exchange ended with read cursor {cursor}, the final packet ends at {end}"),
                );
            }
            let full = plan.stream();
            let released = (run.handle.released_total() as usize).min(full.len());
            let rest = &full[(end as usize).min(released)..released];
            if run.handle.unread() != rest {
                out.fail("tail_damaged", sigbase.clone(), "bytes queued behind the final packet are not intact");
            }
        }
        None => {
            // a refused packet is still one packet: the transport must have consumed exactly it
            // (its body left in the stream would be read as the next packet's header)
            if matches!(pred.error, Some("negative_ack") | Some("foreign_control_field") | Some("undecodable_body")) && cursor < pred.read_limit {
                out.fail(
                    "under_read",
                    format!("{sigbase}/{}", pred.error.unwrap_or("")),
                    format!(
                        "the refused packet ends at offset {}, but the client consumed only {cursor} bytes: the rest would be taken for the next packet",
                        pred.read_limit
                    ),
                );
            }
            if cursor > pred.read_limit {
                out.fail(
                    "over_read",
                    format!("{sigbase}/{}", pred.error.unwrap_or("")),
                    format!(
                        "client consumed {cursor} bytes although the exchange failed at offset {}",
                        pred.read_limit
                    ),
                );
            }
        }
    }
    for a in &run.term.anomalies {
        out.fail("terminal_anomaly", sigbase.clone(), a.clone());
    }
    out
}
