//! Reference model of the terminal client (DESIGN.md 5.4) and the oracles of
//! the fault-free transport configuration: C07 (token map refinement), C08
//! (amounts and field wiring), C18 (card identity), C19 (clean-up ordering),
//! C20 (aborts surface with their code). Exact only when the transport
//! delivers everything (schedules, no faults); C09/C10 have their own oracles.
use crate::client::{ClientPlan, ClientRun, ErrKind, OkVal, OpRecord, OpResult, OpSpec};
use crate::conn::Ev;
use crate::framework::{panic_sig, Stats, Violation};
use crate::pt::*;
use crate::refcodec::{self as rc, Pkt};
use crate::rng::Hasher64;
use std::collections::BTreeMap;

pub struct Judged {
    /// (property, violation)
    pub v: Vec<(&'static str, Violation)>,
    pub states: Vec<u64>,
    pub stats: Stats,
}

impl Judged {
    fn fail(&mut self, prop: &'static str, rule: &str, sig: impl Into<String>, detail: impl Into<String>) {
        self.v.push((prop, Violation::new(rule, sig, detail)));
    }
}

pub fn cp437(s: &str) -> Option<Vec<u8>> {
    yore::code_pages::CP437.encode(s).ok().map(|c| c.to_vec())
}

/// ZVT chapter 10 result codes and their messages (transcribed at the pinned commit).
pub const MESSAGES: &[(u8, &str)] = &[
    (0x64, "card not readable (LRC-/parity-error)"),
    (0x65, "card-data not present (neither track-data nor chip found)"),
    (0x66, "processing-error (also for problems with card-reader mechanism)"),
    (0x67, "function not permitted for ec- and Maestro-cards"),
    (0x68, "function not permitted for credit- and tank-cards"),
    (0x6a, "turnover-file full"),
    (0x6b, "function deactivated (PT not registered)"),
    (0x6c, "abort via timeout or abort-key"),
    (0x6e, "card in blocked-list (response to command 06 E4)"),
    (0x6f, "wrong currency"),
    (0x71, "credit not sufficient (chip-card)"),
    (0x72, "chip error"),
    (0x73, "card-data incorrect (e.g. country-key check, checksum-error)"),
    (0x74, "DUKPT engine exhausted"),
    (0x75, "text not authentic"),
    (0x76, "PAN not in white list"),
    (0x77, "end-of-day batch not possible"),
    (0x78, "card expired"),
    (0x79, "card not yet valid"),
    (0x7a, "card unknown"),
    (0x7b, "fallback to magnetic stripe for girocard not possible"),
    (0x7c, "fallback to magnetic stripe not possible (used for non girocard cards)"),
    (0x7d, "communication error (communication module does not answer or is not present)"),
    (0x7e, "fallback to magnetic stripe not possible, debit advice possible (used only for giro-card)"),
    (0x83, "function not possible"),
    (0x85, "key missing"),
    (0x89, "PIN-pad defective"),
    (0x9a, "ZVT protocol error. e. g. parsing error, mandatory message element missing"),
    (0x9b, "error from dial-up/communication fault"),
    (0x9c, "please wait"),
    (0xa0, "receiver not ready"),
    (0xa1, "remote station does not respond"),
    (0xa3, "no connection"),
    (0xa4, "submission of Geldkarte not possible"),
    (0xa5, "function not allowed due to PCI-DSS/P2PE rules"),
    (0xb1, "memory full"),
    (0xb2, "merchant-journal full"),
    (0xb4, "already reversed"),
    (0xb5, "reversal not possible"),
    (0xb7, "pre-authorization incorrect (amount too high) or amount wrong"),
    (0xb8, "error pre-authorization"),
    (0xbf, "voltage supply to low (external power supply)"),
    (0xc0, "card locking mechanism defective"),
    (0xc1, "merchant-card locked"),
    (0xc2, "diagnosis required"),
    (0xc3, "maximum amount exceeded"),
    (0xc4, "card-profile invalid. New card-profiles must be loaded."),
    (0xc5, "payment method not supported"),
    (0xc6, "currency not applicable"),
    (0xc8, "amount too small"),
    (0xc9, "max. transaction-amount too small"),
    (0xcb, "function only allowed in EURO"),
    (0xcc, "printer not ready"),
    (0xcd, "Cashback not possible"),
    (0xd2, "function not permitted for service-cards/bank-customer-cards"),
    (0xdc, "card inserted"),
    (0xdd, "error during card-eject (for motor-insertion reader)"),
    (0xde, "error during card-insertion (for motor-insertion reader)"),
    (0xe0, "remote-maintenance activated"),
    (0xe2, "card-reader does not answer / card-reader defective"),
    (0xe3, "shutter closed"),
    (0xe4, "Terminal activation required"),
    (0xe7, "min. one goods-group not found"),
    (0xe8, "no goods-groups-table loaded"),
    (0xe9, "restriction-code not permitted"),
    (0xea, "card-code not permitted (e.g. card not activated via Diagnosis)"),
    (0xeb, "function not executable (PIN-algorithm unknown)"),
    (0xec, "PIN-processing not possible"),
    (0xed, "PIN-pad defective"),
    (0xf0, "open end-of-day batch present"),
    (0xf1, "ec-cash/Maestro offline error"),
    (0xf5, "OPT-error"),
    (0xf6, "OPT-data not available (= OPT personalization required)"),
    (0xfa, "error transmitting offline-transactions (clearing error)"),
    (0xfb, "turnover data-set defective"),
    (0xfc, "necessary device not present or defective"),
    (0xfd, "baudrate not supported"),
    (0xfe, "register unknown"),
    (0xff, "system error (= other/unknown error), See TLV tags 1F16 and 1F17"),
];

pub fn message_of(code: u8) -> Option<&'static str> {
    MESSAGES.iter().find(|(c, _)| *c == code).map(|(_, m)| *m)
}

/// Does an error identify result code `c`? (numeric code as a decimal or hex
/// token, the structured `Aborted(c)`, or — `allow_message` — the chapter-10 text.)
pub fn identifies_code(res: &OpResult, c: u8, allow_message: bool) -> Result<(), String> {
    let OpResult::Err { kind, text, debug } = res else {
        return Err(format!("result is {} instead of an error", res.class()));
    };
    if let ErrKind::Aborted(d) = kind {
        return if *d == c {
            Ok(())
        } else {
            Err(format!("error carries result code {d} (0x{d:02x}) but the terminal aborted with {c} (0x{c:02x})"))
        };
    }
    let hay = format!("{text} {debug}").to_lowercase();
    let tokens: Vec<&str> = hay
        .split(|ch: char| !ch.is_ascii_alphanumeric())
        .filter(|t| !t.is_empty())
        .collect();
    let dec = format!("{c}");
    let hex1 = format!("{c:x}");
    let hex2 = format!("0x{c:x}");
    let hex3 = format!("{c:02x}");
    let hex4 = format!("0x{c:02x}");
    // (a bare single hex digit is too easily something else; two digits - `05`, `0a` - are a code)
    if tokens.iter().any(|t| *t == dec || *t == hex2 || *t == hex4 || *t == hex3 || (c >= 10 && *t == hex1)) {
        return Ok(());
    }
    if allow_message {
        if let Some(m) = message_of(c) {
            if hay.contains(&m.to_lowercase()) {
                return Ok(());
            }
        }
        // message of a different code?
        for (d, m) in MESSAGES {
            if *d != c && hay.contains(&m.to_lowercase()) && message_of(c) != Some(*m) {
                return Err(format!("error text is the message of code 0x{d:02x}, the terminal aborted with 0x{c:02x}"));
            }
        }
    }
    Err(format!("error `{text}` does not identify result code {c} (0x{c:02x})"))
}

/// The card-identity function of C18, from the reply alone.
#[derive(Debug, PartialEq)]
pub enum CardExpect {
    Bank,
    /// "bank card" by the statement, "first entry" by the anchored mechanism: Bank or Err, never Membership.
    BankOrErr,
    Membership(String),
    /// This membership id, or an error.
    MembershipOrErr(String),
    NoCard,
    /// Any error (never Ok).
    Err,
    /// Abort with this code: an error identifying it.
    AbortErr(u8),
    /// Not judged (raw, possibly malformed status data of the no-hang check).
    Any,
}

/// The commands the claimed properties speak about (registration, identity, reservation, the two
/// reversals / the pending query, end-of-day, card reading, initialisation, set-terminal-id).
pub fn modelled_command(cf: (u8, u8)) -> bool {
    matches!(cf, (0x06, 0x00) | (0x0f, 0xa1) | (0x06, 0x22) | (0x06, 0x23) | (0x06, 0x25) | (0x06, 0x50) | (0x06, 0xc0) | (0x06, 0x93) | (0x06, 0x1b) | (0x06, 0x01))
}

pub fn card_expect(kind: &CardKind) -> CardExpect {
    match kind {
        CardKind::Abort(0x6c) => CardExpect::NoCard,
        CardKind::Abort(c) => CardExpect::AbortErr(*c),
        CardKind::RawTlv(_) => CardExpect::Any,
        CardKind::Card { no_tlv: true, .. } => CardExpect::Err,
        CardKind::Card { uid, apps, .. } => {
            let apps = apps.clone().unwrap_or_default();
            if !apps.is_empty() {
                if apps[0].aid.is_some() {
                    return CardExpect::Bank;
                }
                // applications are listed but the first carries no id: "bank card" by the statement,
                // "first entry with an id" by the anchored mechanism - Bank or an error, never Membership
                return CardExpect::BankOrErr;
            }
            match uid {
                None => CardExpect::Err,
                // a UID of zero bytes: the empty membership id or "no usable data", whichever
                Some(u) if u.is_empty() => CardExpect::MembershipOrErr(String::new()),
                Some(u) => {
                    let mut m = u.to_uppercase();
                    if m.len() > 14 {
                        m = m[m.len() - 14..].to_string();
                        if let Some(rest) = m.strip_prefix("000000") {
                            m = rest.to_string();
                        }
                    }
                    CardExpect::Membership(m)
                }
            }
        }
    }
}

fn is_traffic(e: &crate::conn::Entry) -> bool {
    e.conn != u16::MAX && !matches!(e.ev, Ev::Note(_))
}

fn bmp_set(p: &Pkt) -> Vec<u8> {
    let mut v: Vec<u8> = p.bmps.iter().map(|(n, _)| *n).collect();
    v.sort();
    v
}

fn token_of(p: &Pkt) -> Option<(Vec<u8>, Vec<u8>)> {
    let ts = p.tlvs()?;
    let prefix = rc::find_path(&ts, &[0xe9, 0x1f62])?.prim_val()?.to_vec();
    let data = rc::find_path(&ts, &[0xe9, 0x1f63])?.prim_val()?.to_vec();
    Some((prefix, data))
}

fn cleanup_ok(c: &CleanupSpec, dangling_reported: bool) -> Option<bool> {
    // None = the statement is silent (the dangling reversal itself was refused)
    if dangling_reported && c.cancel.end != EndSpec::Completion {
        return None;
    }
    Some(matches!(c.eod.end, EndSpec::Completion | EndSpec::Abort(0xa0)))
}

/// The number a summary string stands for: its digits, whatever separators a format puts between them.
fn num(s: &Option<String>) -> Option<u64> {
    s.as_ref().and_then(|x| {
        let d: String = x.chars().filter(|c| c.is_ascii_digit()).collect();
        d.parse::<u64>().ok()
    })
}

pub fn judge_fault_free(plan: &ClientPlan, run: &ClientRun) -> Judged {
    let mut j = Judged {
        v: vec![],
        states: vec![],
        stats: Stats::default(),
    };
    let log = run.log.lock().unwrap();
    let pre = plan.cfg.pre_auth;
    let cur = plan.cfg.currency as u64;
    let mut open: BTreeMap<String, u16> = BTreeMap::new();
    let max = plan.cfg.max_tx as usize;

    // panics / hangs anywhere are everybody's violation
    for o in &run.ops {
        match &o.result {
            OpResult::Panic { loc, msg } => {
                j.fail("*", "panic", panic_sig(loc, msg), format!("{} panicked at {loc}: {msg}", o.name));
                return j;
            }
            OpResult::Hang => {
                j.fail("*", "hang", format!("{}", o.name), format!("{} did not return within one virtual day on a fault-free transport", o.name));
                return j;
            }
            _ => {}
        }
    }
    if let Some(first) = run.ops.first() {
        if first.index == -1 && !first.result.is_ok() {
            // Feig::new handed an error of its start-up configure to the caller instead of ignoring
            // it: no property says which; there is no client to judge then
            j.stats.hit("probe.new_failed");
            return j;
        }
    }
    for a in &run.pt.lock().unwrap().anomalies {
        j.fail("*", "terminal_anomaly", "fault_free", format!("c{}: {}", a.1, a.2));
    }

    let recs: Vec<&OpRecord> = run.ops.iter().filter(|o| o.index >= 0).collect();
    for o in recs {
        let i = o.index as usize;
        let op = &plan.ops[i];
        // only the commands the properties speak about are judged: an additional harmless exchange (a status
        // enquiry, a diagnosis ...) before, between or behind them is not pinned by any property
        let reqs: Vec<ReqLog> = run.requests_of(o.index).into_iter().filter(|r| modelled_command((r.frame[0], r.frame[1]))).collect();
        let traffic = log.entries[o.log_from.min(log.entries.len())..o.log_to.min(log.entries.len())]
            .iter()
            .any(is_traffic);
        let name = op.name();
        // an exchange of the client's own choosing inside this call (initialisation, set-terminal-id,
        // system information) that the terminal refused: the model does not predict what the client makes
        // of that, so "the terminal completed everything the call asked for" cannot be claimed
        let housekeeping_refused = !matches!(op, OpSpec::Configure { .. })
            && reqs.iter().any(|r| matches!((r.frame[0], r.frame[1]), (0x06, 0x93) | (0x06, 0x1b) | (0x0f, 0xa1)) && r.abort_sent.is_some());
        let decoded: Vec<Option<&Pkt>> = reqs.iter().map(|r| r.pkt.as_ref()).collect();
        if decoded.iter().any(|d| d.is_none()) {
            j.fail("C08", "undecodable_request", name, "the terminal could not decode a command frame with the reference codec");
            continue;
        }
        let pk: Vec<&Pkt> = decoded.into_iter().flatten().collect();
        match op {
            OpSpec::Begin { token, res } => {
                let refused = open.len() == max || open.contains_key(token);
                if refused {
                    j.stats.hit("probe.begin_refused");
                    if traffic || !reqs.is_empty() {
                        j.fail("C07", "refused_call_traffic", "begin", format!("begin({token:?}) must be refused (open: {:?}, max {max}) but caused traffic", open.keys().collect::<Vec<_>>()));
                    }
                    if !matches!(&o.result, OpResult::Err { kind: ErrKind::ActiveTransaction(_), .. }) {
                        j.fail("C07", "refused_call_result", "begin", format!("begin({token:?}) on an open token / at the limit returned {} instead of ActiveTransaction", o.result.class()));
                    }
                    continue;
                }
                if let OpResult::Err { kind: ErrKind::ActiveTransaction(_), .. } = &o.result {
                    j.fail("C07", "accepted_call_refused", "begin", format!("begin({token:?}) refused although the token is not open and {} < {max} are open", open.len()));
                    continue;
                }
                // exactly one Reservation, and nothing that closes or books anything else (other, harmless
                // commands - a status enquiry, say - are none of this property's business)
                let n_res = pk.iter().filter(|p| p.cf == (0x06, 0x22)).count();
                if n_res == 0 && pk.is_empty() && !traffic && matches!(o.result, OpResult::Err { .. }) {
                    // refused on the client's own grounds (an argument it does not take, say) without a byte
                    // to the terminal: the two guards of the statement are necessary for success, nothing
                    // says they are sufficient - the token is simply not open
                    j.stats.hit("probe.begin_refused_on_other_grounds");
                    continue;
                }
                // (a client may configure lazily - identity, initialisation, pending query, end-of-day over an
                // empty token map - inside its first call: forbidden is only what touches an open transaction)
                let touches_open = pk.iter().any(|p| {
                    p.cf == (0x06, 0x01)
                        || (p.cf == (0x06, 0x50) && !open.is_empty())
                        || (matches!(p.cf, (0x06, 0x23) | (0x06, 0x25)) && p.get(0x87) != Some(&[0xff, 0xff][..]) && p.get_bcd(0x87).map(|r| open.values().any(|x| *x as u64 == r)).unwrap_or(false))
                });
                if n_res != 1 || touches_open {
                    j.fail("C07", "begin_request", "begin", format!("accepted begin must send exactly one Reservation, sent {:?}", pk.iter().map(|p| p.cf).collect::<Vec<_>>()));
                    // whatever was sent: an abort the terminal delivered for the last reservation of the
                    // call is an error identifying its code (C20), 'device missing' apart
                    if let Some(last) = reqs.iter().rev().find(|r| (r.frame[0], r.frame[1]) == (0x06, 0x22)) {
                        if let (Some(c), Some(false)) = (last.abort_sent, last.completed) {
                            if o.result.is_ok() {
                                j.fail("C20", "abort_as_success", "begin", format!("the terminal aborted the (last) reservation with 0x{c:02x} but begin returned Ok"));
                            } else if c != 0xfc {
                                if let Err(e) = identifies_code(&o.result, c, false) {
                                    j.fail("C20", "abort_code", "begin", e);
                                }
                            }
                        }
                    }
                    if o.result.is_ok() {
                        // the client believes the token is open: follow it to avoid cascades
                        let r = reqs.iter().rev().find_map(|r| r.issued_receipt).unwrap_or(0);
                        open.insert(token.clone(), r);
                    }
                    continue;
                }
                let reqs: Vec<&ReqLog> = reqs.iter().filter(|r| (r.frame[0], r.frame[1]) == (0x06, 0x22)).collect();
                let p = *pk.iter().find(|p| p.cf == (0x06, 0x22)).unwrap();
                // C08: field wiring - the fields the statement names: configured amount and currency, and
                // the reference the later commit is tied to (further optional fields are not pinned)
                let tok = cp437(token).unwrap_or_default();
                let okf = p.get_bcd(0x04) == Some(pre) && p.get_bcd(0x49) == Some(cur) && token_of(p) == Some((b"AC".to_vec(), tok.clone()));
                if !okf {
                    j.fail("C08", "reservation_fields", "begin", format!("Reservation {} does not carry amount {pre}, currency {cur} and reference AC/{token:?}", crate::conn::hex(&reqs[0].frame)));
                }
                let want_ok = res.issues_receipt();
                match (&o.result, want_ok) {
                    (OpResult::Ok(_), true) => {
                        let r = reqs[0].issued_receipt.unwrap_or(0);
                        open.insert(token.clone(), r);
                        j.stats.hit("probe.begin_ok");
                    }
                    (OpResult::Err { .. }, false) => {
                        j.stats.hit("probe.begin_failed_by_terminal");
                        if let EndSpec::Abort(c) = res.end {
                            if c == 0xfc {
                                if !matches!(&o.result, OpResult::Err { kind: ErrKind::NeedsPinEntry, .. }) {
                                    j.fail("C20", "abort_translation", "begin/fc", format!("abort FC during reservation must mean 'PIN required', got {}", o.result.class()));
                                }
                            } else if let Err(e) = identifies_code(&o.result, c, false) {
                                j.fail("C20", "abort_code", "begin", e);
                            }
                        }
                    }
                    (OpResult::Ok(_), false) => {
                        if let EndSpec::Abort(c) = res.end {
                            j.fail("C20", "abort_as_success", "begin", format!("terminal aborted the reservation with code 0x{c:02x} but begin returned Ok"));
                        } else {
                            j.fail("C07", "begin_without_receipt", "begin", format!("begin returned Ok although the terminal issued no receipt number ({:?})", res.status));
                        }
                        // the client now believes the token is open; follow it to avoid cascades
                        open.insert(token.clone(), reqs[0].issued_receipt.unwrap_or(0));
                    }
                    (OpResult::Err { .. }, true) if !housekeeping_refused => {
                        j.fail("C07", "begin_result", "begin", format!("terminal booked the reservation (receipt {:?}) but begin returned {}", reqs[0].issued_receipt, o.result.class()));
                    }
                    _ => {}
                }
            }
            OpSpec::Commit { token, .. } | OpSpec::Cancel { token, .. } => {
                let is_commit = matches!(op, OpSpec::Commit { .. });
                let (rev, cleanup) = match op {
                    OpSpec::Commit { rev, cleanup, .. } => (rev, cleanup),
                    OpSpec::Cancel { rev, cleanup, .. } => (rev, cleanup),
                    _ => unreachable!(),
                };
                let Some(receipt) = open.get(token).copied() else {
                    j.stats.hit("probe.unknown_token_refused");
                    if traffic || !reqs.is_empty() {
                        j.fail("C07", "refused_call_traffic", name, format!("{name}({token:?}) on a token that is not open caused traffic"));
                    }
                    // C08's side of the same breach: a release / reversal went out that is not "against the
                    // receipt number of that reservation" - there is no such reservation any more
                    if let Some(q) = pk.iter().find(|q| (q.cf == (0x06, 0x23) || q.cf == (0x06, 0x25)) && q.get(0x87) != Some(&[0xff, 0xff][..])) {
                        j.fail("C08", if is_commit { "commit_fields" } else { "cancel_fields" }, format!("{name}/closed_token"), format!("{name}({token:?}): the token is not open, yet {} went to the terminal against receipt {:?}", crate::conn::hex(&[q.cf.0, q.cf.1]), q.get_bcd(0x87)));
                    }
                    match &o.result {
                        // (the documented error is the variant; how it renders the token is not pinned)
                        OpResult::Err { kind: ErrKind::UnknownToken(_), .. } => {}
                        other => j.fail("C07", "refused_call_result", name, format!("{name}({token:?}) on a token that is not open returned {} instead of UnknownToken({token:?})", other.class())),
                    }
                    continue;
                };
                open.remove(token);
                if let OpResult::Err { kind: ErrKind::UnknownToken(_), .. } = &o.result {
                    j.fail("C07", "accepted_call_refused", name, format!("{name}({token:?}) refused although the token is open (receipt {receipt})"));
                    continue;
                }
                let want_cf = if is_commit { (0x06, 0x23) } else { (0x06, 0x25) };
                if pk.is_empty() || pk[0].cf != want_cf {
                    j.fail("C07", "reversal_request", name, format!("accepted {name} must first send {:02x} {:02x}, sent {:?}", want_cf.0, want_cf.1, pk.iter().map(|p| p.cf).collect::<Vec<_>>()));
                    // closed with the other kind of reversal of the same receipt: the transaction is
                    // closed on the terminal all the same, so the rules about what follows still apply
                    let other_reversal = pk.first().map(|p| matches!(p.cf, (0x06, 0x23) | (0x06, 0x25)) && p.get_bcd(0x87) == Some(receipt as u64) && p.get(0x87) != Some(&[0xff, 0xff][..])).unwrap_or(false);
                    if is_commit && o.result.is_ok() && !pk.iter().any(|p| p.cf == (0x06, 0x23) && p.get_bcd(0x87) == Some(receipt as u64)) {
                        // C08: a commit that reports success asked the terminal to release the unused part
                        j.fail("C08", "commit_fields", "commit/not_sent", format!("commit({token:?}) returned Ok although no PartialReversal for receipt {receipt} reached the terminal: nothing was released"));
                    }
                    if !other_reversal {
                        continue;
                    }
                }
                let p = pk[0];
                // C07: exactly that token's receipt number
                let ledger_token = o.ledger.get(&receipt).map(|l| l.token.clone());
                if p.get_bcd(0x87) != Some(receipt as u64) {
                    j.fail("C07", "reversal_receipt", name, format!("{name}({token:?}) acts on receipt {:?} but the terminal issued {receipt} for that token", p.get_bcd(0x87)));
                    if is_commit {
                        // "... against the receipt number ... of that reservation" is C08's wording, too
                        j.fail("C08", "commit_fields", "commit/receipt", format!("PartialReversal {} must name receipt {receipt} (BCD), the one the terminal issued for this reservation", crate::conn::hex(&reqs[0].frame)));
                    }
                } else if ledger_token != cp437(token) {
                    j.fail("C07", "reversal_receipt", name, format!("receipt {receipt} belongs to reference {:?} in the terminal's ledger, not to {token:?}", ledger_token));
                }
                // no reversal for anyone else's receipt in this call
                let dangling: Vec<u16> = reqs.iter().filter_map(|r| r.dangling_reported).chain(reqs.iter().flat_map(|r| r.listed_reported.iter().copied())).collect();
                for q in pk.iter().skip(1) {
                    if q.cf == (0x06, 0x23) || q.cf == (0x06, 0x25) {
                        let raw = q.get(0x87).map(|v| v.to_vec());
                        let rr = q.get_bcd(0x87);
                        let fine = raw.as_deref() == Some(&[0xff, 0xff]) || rr.map(|x| dangling.contains(&(x as u16))).unwrap_or(false);
                        // a repeated PartialReversal of the own receipt (a retry after "please wait", say) must
                        // release the very same amount, in the same currency, with the same reference
                        if is_commit && q.cf == (0x06, 0x23) && rr == Some(receipt as u64) {
                            if let OpSpec::Commit { amount, .. } = op {
                                let want = (pre as u128).saturating_sub(*amount as u128) as u64;
                                let tok = cp437(token).unwrap_or_default();
                                if !(q.get_bcd(0x04) == Some(want) && q.get_bcd(0x49) == Some(cur) && token_of(q) == Some((b"AC".to_vec(), tok))) {
                                    j.fail("C08", "commit_fields", "commit/repeated", format!("a repeated PartialReversal of commit({token:?}, {amount}) must release {want} in currency {cur} with reference AC/{token:?}"));
                                }
                            }
                            continue;
                        }
                        if !fine {
                            j.fail("C07", "foreign_receipt", name, format!("{name}({token:?}) also reversed receipt {:?}, which is neither its own nor one the terminal reported as dangling", rr));
                        }
                    }
                }
                // C08: field wiring and arithmetic
                if is_commit {
                    let OpSpec::Commit { amount, .. } = op else { unreachable!() };
                    let want = (pre as u128).saturating_sub(*amount as u128) as u64;
                    let tok = cp437(token).unwrap_or_default();
                    // the fields the statement names: released amount, currency, receipt (checked above), reference
                    let okf = p.get_bcd(0x04) == Some(want) && p.get_bcd(0x49) == Some(cur) && token_of(p) == Some((b"AC".to_vec(), tok));
                    if !okf {
                        j.fail(
                            "C08",
                            "commit_fields",
                            if p.get_bcd(0x04) != Some(want) { "commit/amount" } else { "commit/other" },
                            format!("PartialReversal {} must release max({pre} - {amount}, 0) = {want} in currency {cur} against receipt {receipt} and reference AC/{token:?}", crate::conn::hex(&reqs[0].frame)),
                        );
                    }
                } else {
                    // the receipt is checked above; a currency, if the request names one, is the configured one
                    let okf = p.get(0x49).is_none() || p.get_bcd(0x49) == Some(cur);
                    if !okf {
                        j.fail("C08", "cancel_fields", "cancel", format!("PreAuthReversal {} names a currency other than the configured {cur}", crate::conn::hex(&reqs[0].frame)));
                    }
                }
                let own_completed = reqs[0].completed == Some(true);
                // C08: ledger conservation
                if own_completed {
                    let st = o.ledger.get(&receipt).map(|l| l.state.clone());
                    if is_commit {
                        let OpSpec::Commit { amount, .. } = op else { unreachable!() };
                        let want = (pre as u128).saturating_sub(*amount as u128) as u64;
                        if st != Some(EntryState::Released(want)) {
                            j.fail("C08", "ledger_conservation", "commit", format!("after commit the terminal's ledger entry {receipt} is {:?}, expected Released({want})", st));
                        }
                    } else if st != Some(EntryState::Reversed) {
                        j.fail("C08", "ledger_conservation", "cancel", format!("after cancel the ledger entry {receipt} is {:?}", st));
                    }
                }
                // C19: what follows the own reversal
                let rest = &pk[1..];
                let rest_reqs = &reqs[1..];
                if own_completed && open.is_empty() {
                    j.stats.hit("probe.cleanup_expected");
                    let mut k = 0;
                    let mut ok = true;
                    let mut why = String::new();
                    // 1. the pending query
                    match rest.get(k) {
                        Some(q) if q.cf == (0x06, 0x23) && q.get(0x87) == Some(&[0xff, 0xff][..]) => k += 1,
                        _ => {
                            ok = false;
                            why = "the first frame after the completed reversal must be the pending query 06 23 with receipt FFFF".into();
                        }
                    }
                    // 2. what follows, as a temporal pattern rather than a fixed frame list: every
                    // pre-authorisation a query reports is reversed (06 25, that receipt) before end-of-day
                    // is requested; end-of-day (06 50, configured password) is requested; further queries
                    // in between and whatever comes after end-of-day are not pinned
                    if ok {
                        let mut reported: Vec<u16> = vec![];
                        let mut reversed: Vec<u16> = vec![];
                        let mut refused = false;
                        let mut eod_seen = false;
                        for (q, rq) in rest.iter().zip(rest_reqs.iter()) {
                            if eod_seen {
                                break;
                            }
                            if q.cf == (0x06, 0x23) && q.get(0x87) == Some(&[0xff, 0xff][..]) {
                                if let Some(r2) = rq.dangling_reported {
                                    if !reported.contains(&r2) {
                                        reported.push(r2);
                                        j.stats.hit("probe.cleanup_with_dangling_receipt");
                                    }
                                }
                            } else if q.cf == (0x06, 0x25) {
                                if let Some(r) = q.get_bcd(0x87) {
                                    if reported.contains(&(r as u16)) && (q.get(0x49).is_none() || q.get_bcd(0x49) == Some(cur)) {
                                        reversed.push(r as u16);
                                        if rq.completed != Some(true) {
                                            refused = true;
                                        }
                                    }
                                }
                            } else if q.cf == (0x06, 0x50) {
                                eod_seen = true;
                                if let Some(r2) = reported.iter().find(|r| !reversed.contains(r)) {
                                    ok = false;
                                    why = format!("the terminal reported the dangling pre-authorisation {r2}; its reversal 06 25 must come before end-of-day");
                                } else if rc::bcd_val(&q.pos) != Some(plan.cfg.password as u64) {
                                    ok = false;
                                    why = format!("end-of-day 06 50 must carry the configured password {}", plan.cfg.password);
                                }
                            }
                        }
                        if refused {
                            // the terminal refused the reversal of a pre-authorisation it reported: that one
                            // is still open, so end-of-day must not be requested over it
                            j.stats.hit("probe.dangling_reversal_refused");
                            // C20: that abort, too, surfaces as an error identifying its code
                            if let EndSpec::Abort(c) = cleanup.cancel.end {
                                if o.result.is_ok() {
                                    j.fail("C20", "abort_as_success", name, format!("the terminal aborted the reversal of a dangling pre-authorisation with 0x{c:02x} but {name} returned Ok"));
                                } else if let Err(e) = identifies_code(&o.result, c, false) {
                                    j.fail("C20", "abort_code", name, format!("the terminal aborted the reversal of a dangling pre-authorisation with 0x{c:02x}: {e}"));
                                }
                            }
                            if eod_seen {
                                j.fail("C19", "eod_over_dangling", name, format!("the terminal refused the reversal of a dangling pre-authorisation ({:?}), yet {name} went on to request end-of-day over it", reported));
                            }
                            k = usize::MAX;
                        } else if ok {
                            if let Some(r2) = reported.iter().find(|r| !reversed.contains(r)) {
                                ok = false;
                                why = format!("the terminal reported the dangling pre-authorisation {r2}; it must be reversed (06 25, currency {cur})");
                            } else if !eod_seen {
                                ok = false;
                                why = format!("end-of-day 06 50 (password {}) must follow", plan.cfg.password);
                            }
                        }
                    }
                    let _ = k;
                    if !ok {
                        j.fail(
                            "C19",
                            "cleanup_sequence",
                            name,
                            format!("{name} left no transaction open: {why}; frames after the reversal: {:?}", rest.iter().map(|p| format!("{:02x}{:02x}", p.cf.0, p.cf.1)).collect::<Vec<_>>()),
                        );
                    }
                } else if own_completed {
                    j.stats.hit("probe.no_cleanup_while_open");
                    if !rest.is_empty() {
                        j.fail(
                            "C19",
                            "eod_over_open",
                            name,
                            format!("{} transaction(s) still open, yet {name} went on to send {:?}", open.len(), rest.iter().map(|p| format!("{:02x}{:02x}", p.cf.0, p.cf.1)).collect::<Vec<_>>()),
                        );
                    }
                } else if rest.iter().any(|q| q.cf == (0x06, 0x50)) && !open.is_empty() {
                    j.fail("C19", "eod_over_open", name, "end-of-day requested while transactions are open");
                }
                // results
                match rev.end {
                    EndSpec::Abort(c) if reqs[0].completed == Some(false) => {
                        j.stats.hit("probe.reversal_aborted");
                        if o.result.is_ok() {
                            j.fail("C20", "abort_as_success", name, format!("terminal aborted the reversal with 0x{c:02x} but {name} returned Ok"));
                        } else if let Err(e) = identifies_code(&o.result, c, false) {
                            j.fail("C20", "abort_code", name, e);
                        }
                    }
                    _ if own_completed => {
                        let needs_cleanup = open.is_empty();
                        let reported = reqs.iter().any(|r| r.dangling_reported.is_some());
                        let c_ok = if needs_cleanup { cleanup_ok(cleanup, reported) } else { Some(true) };
                        match c_ok {
                            Some(true) => {
                                let expect_ok = !is_commit || rev.status;
                                if expect_ok && !o.result.is_ok() && !housekeeping_refused {
                                    j.fail(
                                        if needs_cleanup && cleanup.eod.end == EndSpec::Abort(0xa0) { "C19" } else { "C07" },
                                        if needs_cleanup && cleanup.eod.end == EndSpec::Abort(0xa0) { "not_ready_not_tolerated" } else { "completed_call_failed" },
                                        name,
                                        format!("terminal completed everything {name} asked for, yet it returned {}", o.result.class()),
                                    );
                                    if is_commit {
                                        // C08's side: no summary is handed back for a commit the terminal carried out
                                        j.fail("C08", "summary", "commit/lost", format!("the terminal carried the commit out and reported amount, trace number, date and time; commit returned {} and handed nothing back", o.result.class()));
                                    }
                                }
                            }
                            Some(false) => {
                                j.stats.hit("probe.eod_refused");
                                let EndSpec::Abort(c) = cleanup.eod.end else { unreachable!() };
                                if o.result.is_ok() {
                                    j.fail("C19", "eod_refusal_swallowed", name, format!("end-of-day was refused with 0x{c:02x} but {name} returned Ok"));
                                    // C20's side of it: an abort is never reported as success (A0 apart, which is not this branch)
                                    j.fail("C20", "abort_as_success", format!("{name}/eod"), format!("the terminal aborted the end-of-day behind {name} with 0x{c:02x} but {name} returned Ok"));
                                } else if let Err(e) = identifies_code(&o.result, c, false) {
                                    j.fail("C20", "abort_code", format!("{name}/eod"), e);
                                }
                            }
                            None => {}
                        }
                        // C08: the summary reproduces what the terminal reported
                        if let (OpResult::Ok(OkVal::Summary { terminal_id, amount, trace_number, date, time }), Some(s)) = (&o.result, &reqs[0].status_sent) {
                            let same = *amount == s.amount
                                && *trace_number == s.trace
                                && num(date) == s.date
                                && num(time) == s.time
                                && num(terminal_id) == s.terminal_id;
                            if !same {
                                j.fail(
                                    "C08",
                                    "summary",
                                    "commit",
                                    format!(
                                        "summary (amount {:?}, trace {:?}, date {:?}, time {:?}, terminal {:?}) differs from the status information the terminal sent (amount {:?}, trace {:?}, date {:?}, time {:?}, terminal {:?})",
                                        amount, trace_number, date, time, terminal_id, s.amount, s.trace, s.date, s.time, s.terminal_id
                                    ),
                                );
                            }
                            j.stats.hit("probe.summary_compared");
                        }
                    }
                    _ => {}
                }
            }
            OpSpec::ReadCard { card } if matches!(card.kind, CardKind::RawTlv(_)) => {}
            OpSpec::ReadCard { card } => {
                // exactly one card-reading command; what else the call sends (a lazy configuration, say) is its
                // own business as long as it books nothing and touches no open transaction
                let n_rc = pk.iter().filter(|p| p.cf == (0x06, 0xc0)).count();
                let touches = pk.iter().any(|p| {
                    matches!(p.cf, (0x06, 0x22) | (0x06, 0x01))
                        || (p.cf == (0x06, 0x50) && !open.is_empty())
                        || (matches!(p.cf, (0x06, 0x23) | (0x06, 0x25)) && p.get(0x87) != Some(&[0xff, 0xff][..]) && p.get_bcd(0x87).map(|r| open.values().any(|x| *x as u64 == r)).unwrap_or(false))
                });
                if n_rc != 1 || touches {
                    j.fail("C18", "read_card_request", "read_card", format!("read_card sent {:?}", pk.iter().map(|p| p.cf).collect::<Vec<_>>()));
                    continue;
                }
                let want = card_expect(&card.kind);
                let got = &o.result;
                let sigk = format!("{:?}", want).split('(').next().unwrap_or("").to_string();
                match (&want, got) {
                    (CardExpect::Bank, OpResult::Ok(OkVal::Bank)) => j.stats.hit("probe.card_bank"),
                    (CardExpect::BankOrErr, OpResult::Ok(OkVal::Bank)) | (CardExpect::BankOrErr, OpResult::Err { .. }) => j.stats.hit("probe.card_first_entry_without_id"),
                    (CardExpect::Membership(m), OpResult::Ok(OkVal::Membership(g))) if m == g => j.stats.hit("probe.card_membership"),
                    (CardExpect::MembershipOrErr(m), OpResult::Ok(OkVal::Membership(g))) if m == g => j.stats.hit("probe.card_membership"),
                    (CardExpect::MembershipOrErr(_), OpResult::Err { kind, .. }) if *kind != ErrKind::NoCardPresented => j.stats.hit("probe.card_unclassifiable"),
                    (CardExpect::NoCard, OpResult::Err { kind: ErrKind::NoCardPresented, .. }) => j.stats.hit("probe.card_timeout"),
                    (CardExpect::Err, OpResult::Err { kind, .. }) if *kind != ErrKind::NoCardPresented => j.stats.hit("probe.card_unclassifiable"),
                    (CardExpect::AbortErr(c), OpResult::Err { kind, .. }) if *kind != ErrKind::NoCardPresented => {
                        j.stats.hit("probe.card_abort");
                        if let Err(e) = identifies_code(got, *c, true) {
                            j.fail("C20", "abort_code", "read_card", e);
                        }
                    }
                    (CardExpect::AbortErr(c), OpResult::Ok(_)) => {
                        j.fail("C20", "abort_as_success", "read_card", format!("terminal aborted card reading with 0x{c:02x} but read_card returned {}", got.class()));
                        j.fail("C18", "card_identity", sigk, format!("abort 0x{c:02x} reported as a card"));
                    }
                    (CardExpect::AbortErr(c), OpResult::Err { kind: ErrKind::NoCardPresented, .. }) => {
                        j.fail("C20", "abort_translation", "read_card", format!("abort 0x{c:02x} reported as 'no card presented' (only 6C means that)"));
                        j.fail("C18", "card_identity", sigk, format!("abort 0x{c:02x} reported as 'no card presented'"));
                    }
                    (CardExpect::NoCard, other) => {
                        j.fail("C18", "card_identity", sigk.clone(), format!("terminal time-out (6C) must be 'no card presented', got {}", other.class()));
                        j.fail("C20", "abort_translation", "read_card/6c", format!("6C while reading a card must mean 'no card', got {}", other.class()));
                    }
                    (w, g) => {
                        j.fail(
                            "C18",
                            "card_identity",
                            sigk,
                            format!("status data {:?} must classify as {:?}, read_card returned {}", card.kind, w, match g {
                                OpResult::Ok(v) => format!("Ok({:?})", v),
                                other => other.class(),
                            }),
                        );
                    }
                }
            }
            OpSpec::Configure { out } => {
                // Which exchanges configure runs, and in which order, is not pinned by any property (it may
                // re-register, enquire the status, ...). Judged is what the terminal actually did: the first
                // exchange of this call that it aborted - other than the pending query, which is answered
                // with an abort packet by protocol - must surface as an error identifying its code
                // ('receiver not ready' at end-of-day is tolerated); if it aborted nothing and end-of-day
                // completed, configure succeeds.
                let _ = out;
                let is_query = |r: &ReqLog| r.pkt.as_ref().map(|p| p.cf == (0x06, 0x23) && p.get(0x87) == Some(&[0xff, 0xff][..])).unwrap_or(false);
                if reqs.iter().any(|r| is_query(r) || (r.frame[0], r.frame[1]) == (0x06, 0x50)) {
                    // the clean-up wipes the token map
                    open.clear();
                }
                let first_abort = reqs.iter().find(|r| !is_query(r) && r.completed == Some(false) && r.abort_sent.is_some());
                match first_abort {
                    Some(r) => {
                        let c = r.abort_sent.unwrap();
                        let cf = (r.frame[0], r.frame[1]);
                        j.stats.hit("probe.configure_aborted");
                        if cf == (0x06, 0x50) && c == 0xa0 {
                            if !o.result.is_ok() {
                                j.fail("C19", "not_ready_not_tolerated", "configure", format!("configure: end-of-day answered 'receiver not ready' (A0), which is tolerated, yet it returned {}", o.result.class()));
                            }
                        } else if o.result.is_ok() {
                            j.fail("C20", "abort_as_success", "configure", format!("terminal aborted the {:02x} {:02x} exchange of configure with 0x{c:02x} but configure returned Ok", cf.0, cf.1));
                        } else if let Err(e) = identifies_code(&o.result, c, false) {
                            j.fail("C20", "abort_code", if cf == (0x06, 0x50) { "configure/eod" } else { "configure" }, e);
                        }
                    }
                    None => {
                        let eod_completed = reqs.iter().any(|r| (r.frame[0], r.frame[1]) == (0x06, 0x50) && r.completed == Some(true));
                        if eod_completed && !o.result.is_ok() {
                            j.fail("C19", "not_ready_not_tolerated", "configure", format!("configure: the terminal completed everything including end-of-day, yet it returned {}", o.result.class()));
                        }
                    }
                }
            }
        }
        // C19: end-of-day must never reach the terminal while a dangling pre-authorisation it
        // reported (or tried to report) is still open
        if matches!(op, OpSpec::Commit { .. } | OpSpec::Cancel { .. }) {
            for r in reqs.iter().filter(|r| (r.frame[0], r.frame[1]) == (0x06, 0x50)) {
                if !r.open_dangling_at_arrival.is_empty() {
                    j.fail("C19", "eod_over_dangling", name, format!("end-of-day requested while the dangling pre-authorisation(s) {:?} are still open on the terminal", r.open_dangling_at_arrival));
                }
            }
        }
        // ledger cross-invariant (C07): every token the model holds open is an open,
        // untouched ledger entry booked for that very reference
        {
            let ledger = &o.ledger;
            for (t, r) in &open {
                let ok = ledger
                    .get(r)
                    .map(|l| l.state == EntryState::Open && Some(l.token.clone()) == cp437(t))
                    .unwrap_or(false);
                if !ok {
                    j.fail("C07", "ledger_invariant", "open_tokens", format!("token {t:?} is open with receipt {r}, but the terminal's ledger has {:?}", ledger.get(r).map(|l| (&l.state, &l.token))));
                }
            }
            let mut h = Hasher64::default();
            h.u64(max as u64);
            for (t, _) in &open {
                h.str(t);
            }
            h.u64(ledger.values().filter(|l| l.state == EntryState::Open).count() as u64);
            h.u64(ledger.values().filter(|l| matches!(l.state, EntryState::Released(_))).count() as u64);
            h.u64(ledger.values().filter(|l| l.state == EntryState::Reversed).count() as u64);
            j.states.push(h.finish());
        }
    }
    j
}

/// The part of the reference model that holds under ANY transport faults: the
/// token map is tracked from the *results* the client returned (begin Ok opens,
/// any accepted commit/cancel closes), so refusals without traffic, the field
/// wiring of every request that reaches the terminal (retries included) and
/// "no end-of-day while tokens are open" stay decidable.
pub fn judge_under_faults(plan: &ClientPlan, run: &ClientRun) -> Judged {
    let mut j = Judged {
        v: vec![],
        states: vec![],
        stats: Stats::default(),
    };
    let log = run.log.lock().unwrap();
    let pre = plan.cfg.pre_auth;
    let cur = plan.cfg.currency as u64;
    let max = plan.cfg.max_tx as usize;
    // open token -> receipts the terminal issued (completed reservation) during the begin that opened it
    let mut open: std::collections::BTreeMap<String, Vec<u16>> = Default::default();
    for o in &run.ops {
        match &o.result {
            OpResult::Panic { loc, msg } => {
                j.fail("*", "panic", panic_sig(loc, msg), format!("{} panicked at {loc}: {msg}", o.name));
                return j;
            }
            OpResult::Hang => return j, // C10's business
            _ => {}
        }
    }
    let all_reqs: Vec<ReqLog> = run.pt.lock().unwrap().requests.clone();
    let all_fired: Vec<crate::pt::FaultFired> = run.pt.lock().unwrap().fired.clone();
    // receipts the terminal offered for reservations carrying a given reference
    let offered = |tok: &[u8]| -> Vec<u16> {
        all_reqs
            .iter()
            .filter(|r| r.pkt.as_ref().map(|p| p.cf == (0x06, 0x22) && token_of(p).map(|t| t.1 == tok).unwrap_or(false)).unwrap_or(false))
            .filter_map(|r| r.offered_receipt)
            .collect()
    };
    for o in run.ops.iter().filter(|o| o.index >= 0) {
        let op = &plan.ops[o.index as usize];
        let name = op.name();
        let reqs: Vec<&ReqLog> = all_reqs.iter().filter(|r| r.op == o.index && modelled_command((r.frame[0], r.frame[1]))).collect();
        // a connect attempt (even a refused one) is traffic towards the terminal, too
        let traffic = log.entries[o.log_from.min(log.entries.len())..o.log_to.min(log.entries.len())].iter().any(is_traffic)
            || run.connect_log.iter().any(|(seq, _)| o.log_from <= *seq && *seq < o.log_to);
        let pk: Vec<&Pkt> = reqs.iter().filter_map(|r| r.pkt.as_ref()).collect();
        match op {
            OpSpec::Begin { token, .. } => {
                let open_before = open.clone();
                let refused = open.len() == max || open.contains_key(token);
                if refused {
                    j.stats.hit("probe.begin_refused");
                    if traffic {
                        j.fail("C07", "refused_call_traffic", "begin", format!("begin({token:?}) must be refused (open: {:?}, max {max}) but caused traffic", open));
                    }
                    if !matches!(&o.result, OpResult::Err { kind: ErrKind::ActiveTransaction(_), .. }) {
                        j.fail("C07", "refused_call_result", "begin", format!("begin({token:?}) on an open token / at the limit returned {}", o.result.class()));
                    }
                    continue;
                }
                match &o.result {
                    OpResult::Ok(_) => {
                        open.insert(token.clone(), reqs.iter().filter(|r| (r.frame[0], r.frame[1]) == (0x06, 0x22)).filter_map(|r| r.issued_receipt).collect());
                    }
                    OpResult::Err { kind: ErrKind::ActiveTransaction(_), .. } => {
                        j.fail("C07", "accepted_call_refused", "begin", format!("begin({token:?}) refused although the token is not open and {} < {max} are open", open.len()));
                    }
                    _ => {}
                }
                let tok = cp437(token).unwrap_or_default();
                for p in pk.iter().filter(|p| p.cf == (0x06, 0x22)) {
                    let okf = p.get_bcd(0x04) == Some(pre) && p.get_bcd(0x49) == Some(cur) && token_of(p) == Some((b"AC".to_vec(), tok.clone()));
                    if !okf {
                        j.fail("C08", "reservation_fields", "begin", format!("a Reservation sent by begin({token:?}) does not carry amount {pre}, currency {cur} and reference AC/{token:?}"));
                    }
                }
                // (a lazy configuration inside the call is fine: forbidden is what touches an open transaction)
                let open_receipts: Vec<u16> = open_before.values().flatten().copied().collect();
                if pk.iter().any(|p| {
                    (p.cf == (0x06, 0x50) && !open_before.is_empty())
                        || (matches!(p.cf, (0x06, 0x23) | (0x06, 0x25)) && p.get(0x87) != Some(&[0xff, 0xff][..]) && p.get_bcd(0x87).map(|r| open_receipts.contains(&(r as u16))).unwrap_or(false))
                }) {
                    j.fail("C07", "begin_request", "begin", "begin reversed an open transaction or requested end-of-day over open ones");
                }
                if let Some(last) = reqs.iter().rev().find(|r| (r.frame[0], r.frame[1]) == (0x06, 0x22)) {
                    if let (Some(c), Some(false)) = (last.abort_sent, last.completed) {
                        if o.result.is_ok() {
                            j.fail("C20", "abort_as_success", "begin", format!("the terminal aborted the (last) reservation with 0x{c:02x} but begin returned Ok"));
                        }
                    }
                }
            }
            OpSpec::Commit { token, .. } | OpSpec::Cancel { token, .. } => {
                let is_commit = matches!(op, OpSpec::Commit { .. });
                if !open.contains_key(token) {
                    j.stats.hit("probe.unknown_token_refused");
                    if traffic {
                        j.fail("C07", "refused_call_traffic", name, format!("{name}({token:?}) on a token that is not open caused traffic"));
                    }
                    match &o.result {
                        OpResult::Err { kind: ErrKind::UnknownToken(_), .. } => {}
                        other => j.fail("C07", "refused_call_result", name, format!("{name}({token:?}) on a token that is not open returned {}", other.class())),
                    }
                    continue;
                }
                let issued_for_token = open.remove(token).unwrap_or_default();
                if let OpResult::Err { kind: ErrKind::UnknownToken(_), .. } = &o.result {
                    j.fail("C07", "accepted_call_refused", name, format!("{name}({token:?}) refused although begin({token:?}) had returned Ok and the token was never closed"));
                    continue;
                }
                let tok = cp437(token).unwrap_or_default();
                let mine = offered(&tok);
                let dangling: Vec<u16> = reqs.iter().filter_map(|r| r.dangling_reported).chain(reqs.iter().flat_map(|r| r.listed_reported.iter().copied())).collect();
                let want_cf = if is_commit { (0x06, 0x23) } else { (0x06, 0x25) };
                let mut own_receipts: Vec<u64> = vec![];
                for p in pk.iter() {
                    let raw = p.get(0x87).map(|v| v.to_vec());
                    if p.cf == (0x06, 0x23) && raw.as_deref() == Some(&[0xff, 0xff]) {
                        continue;
                    }
                    if p.cf == (0x06, 0x23) || p.cf == (0x06, 0x25) {
                        let r = p.get_bcd(0x87).unwrap_or(u64::MAX);
                        let is_own = p.cf == want_cf && !dangling.contains(&(r as u16));
                        if is_own || p.cf == (0x06, 0x23) {
                            own_receipts.push(r);
                            if !mine.contains(&(r as u16)) {
                                j.fail("C07", "reversal_receipt", name, format!("{name}({token:?}) acts on receipt {r}, which the terminal never offered for a reservation with that reference (offered: {:?})", mine));
                            } else if !issued_for_token.is_empty() && !issued_for_token.contains(&(r as u16)) {
                                // offered in an attempt that never completed (connection lost before the
                                // completion): the terminal issued another number for the reservation it booked
                                j.fail("C07", "reversal_receipt", name, format!("{name}({token:?}) acts on receipt {r}, which the terminal offered in an attempt that never completed; the reservation it completed for this token got {:?}", issued_for_token));
                                // C08's side: "against the receipt number ... of that reservation"
                                j.fail("C08", if is_commit { "commit_fields" } else { "cancel_fields" }, format!("{name}/receipt_of_an_unfinished_attempt"), format!("{name}({token:?}) names receipt {r} of an attempt that never completed; the reservation the terminal completed for this token has {:?}", issued_for_token));
                            }
                        } else if !dangling.contains(&(r as u16)) {
                            j.fail("C07", "foreign_receipt", name, format!("{name}({token:?}) reversed receipt {r}, neither its own nor reported as dangling"));
                        }
                        if p.cf == (0x06, 0x23) {
                            let OpSpec::Commit { amount, .. } = op else { continue };
                            let want = (pre as u128).saturating_sub(*amount as u128) as u64;
                            let okf = p.get_bcd(0x04) == Some(want) && p.get_bcd(0x49) == Some(cur) && token_of(p) == Some((b"AC".to_vec(), tok.clone()));
                            if !okf {
                                j.fail("C08", "commit_fields", if p.get_bcd(0x04) != Some(want) { "commit/amount" } else { "commit/other" }, format!("a PartialReversal of commit({token:?}, {amount}) must release {want} in currency {cur} with reference AC/{token:?}"));
                            }
                        } else if p.get(0x49).is_some() && p.get_bcd(0x49) != Some(cur) {
                            j.fail("C08", "cancel_fields", "cancel", "a PreAuthReversal naming a currency other than the configured one");
                        }
                    }
                }
                own_receipts.dedup();
                if own_receipts.len() > 1 {
                    j.fail("C07", "reversal_receipt", name, format!("{name}({token:?}) used different receipt numbers across its attempts: {:?}", own_receipts));
                }
                for r in reqs.iter().filter(|r| (r.frame[0], r.frame[1]) == (0x06, 0x50)) {
                    if !r.open_dangling_at_arrival.is_empty() {
                        j.fail("C19", "eod_over_dangling", name, format!("end-of-day requested while the dangling pre-authorisation(s) {:?} are still open on the terminal", r.open_dangling_at_arrival));
                    }
                }
                // the last exchange of the call's own command, as the terminal ended it
                let own_last = reqs.iter().rev().find(|r| {
                    r.pkt.as_ref().map(|p| p.cf == want_cf && p.get(0x87) != Some(&[0xff, 0xff][..]) && !p.get_bcd(0x87).map(|x| dangling.contains(&(x as u16))).unwrap_or(false)).unwrap_or(false)
                });
                if let Some(last) = own_last {
                    if let (Some(c), Some(false)) = (last.abort_sent, last.completed) {
                        // the abort packet was delivered (the exchange ran to its end) ...
                        j.stats.hit("probe.reversal_aborted");
                        if o.result.is_ok() {
                            j.fail("C20", "abort_as_success", name, format!("the terminal aborted the (last) reversal of {name}({token:?}) with 0x{c:02x} but the call returned Ok"));
                        }
                    }
                    if let (Some(true), Some(s), OpResult::Ok(OkVal::Summary { terminal_id, amount, trace_number, date, time })) = (last.completed, &last.status_sent, &o.result) {
                        let same = *amount == s.amount && *trace_number == s.trace && num(date) == s.date && num(time) == s.time && num(terminal_id) == s.terminal_id;
                        if !same {
                            j.fail("C08", "summary", "commit", format!("summary (amount {:?}, trace {:?}, date {:?}, time {:?}) differs from the status information of the exchange the terminal completed (amount {:?}, trace {:?}, date {:?}, time {:?})", amount, trace_number, date, time, s.amount, s.trace, s.date, s.time));
                        }
                        j.stats.hit("probe.summary_compared");
                    }
                }
                // bounded liveness of the call itself: when the only trouble of the whole run were connections
                // the terminal closed cleanly between two exchanges (nothing half-done anywhere, every connect
                // succeeds), a commit / cancel the client accepted - it closes the token - also *acts*: the
                // reversal for that token's receipt reaches the terminal (C07 "act on exactly that token's
                // receipt number and close the token", C08 "asks the terminal to release ...")
                {
                    let only_idle_closes = !all_fired.is_empty()
                        && all_fired.iter().all(|f| f.kind == FaultKind::CloseIdle)
                        && run.connect_log.iter().all(|(_, c)| matches!(c, crate::client::ConnectSpec::Ok));
                    if only_idle_closes && !issued_for_token.is_empty() {
                        j.stats.hit("probe.call_after_idle_close");
                        let acted = pk.iter().any(|p| matches!(p.cf, (0x06, 0x23) | (0x06, 0x25)) && p.get_bcd(0x87).map(|r| issued_for_token.contains(&(r as u16))).unwrap_or(false));
                        if !acted {
                            j.fail("C07", "closed_without_acting", name, format!("{name}({token:?}) closed the token (it returned {}), yet no reversal for its receipt {:?} reached the terminal - the connection had merely been closed while idle", o.result.class(), issued_for_token));
                            if is_commit {
                                j.fail("C08", "commit_fields", "commit/never_sent", format!("commit({token:?}) closed the token, yet no PartialReversal for receipt {:?} reached the terminal - the connection had merely been closed while idle", issued_for_token));
                            }
                        }
                    }
                }
                // bounded liveness of the clean-up: when the only trouble of this call was a connection
                // that the terminal closed cleanly *between* two exchanges (nothing half-done anywhere),
                // the client reconnects and the clean-up still runs to its end: end-of-day reaches the terminal
                {
                    let fired_here: Vec<FaultKind> = all_fired.iter().filter(|f| o.log_from <= f.seq && f.seq < o.log_to).map(|f| f.kind).collect();
                    let cleanup = match op {
                        OpSpec::Commit { cleanup, .. } | OpSpec::Cancel { cleanup, .. } => cleanup,
                        _ => unreachable!(),
                    };
                    let own_completed = own_last.map(|l| l.completed == Some(true)).unwrap_or(false);
                    if own_completed
                        && open.is_empty()
                        && !fired_here.is_empty()
                        && fired_here.iter().all(|k| *k == FaultKind::CloseIdle)
                        && cleanup.cancel.end == EndSpec::Completion
                        && run.connect_log.iter().all(|(_, c)| matches!(c, crate::client::ConnectSpec::Ok))
                    {
                        j.stats.hit("probe.cleanup_after_idle_close");
                        if !reqs.iter().any(|r| r.pkt.as_ref().map(|p| p.cf == (0x06, 0x50)).unwrap_or(false)) {
                            j.fail("C19", "cleanup_not_completed", name, format!("{name}({token:?}) was completed by the terminal and left nothing open; the connection was merely closed between two exchanges, yet no end-of-day request reached the terminal (requests of this call: {:?})", pk.iter().map(|p| p.cf).collect::<Vec<_>>()));
                        }
                    }
                }
                if !open.is_empty() && pk.iter().any(|p| p.cf == (0x06, 0x50) || (p.cf == (0x06, 0x23) && p.get(0x87) == Some(&[0xff, 0xff][..]))) {
                    j.fail("C19", "eod_over_open", name, format!("{} transaction(s) still open, yet {name} ran the clean-up / end-of-day", open.len()));
                }
            }
            OpSpec::Configure { .. } => {
                // configure wipes the map once it reaches the clean-up; from the results alone we
                // cannot know how far it got under faults: stop judging map-dependent rules
                if pk.iter().any(|p| p.cf == (0x06, 0x23) || p.cf == (0x06, 0x50)) || !o.result.is_ok() {
                    return j;
                }
            }
            OpSpec::ReadCard { card } => {
                // whatever the transport does, a card is never classified wrongly
                let want = card_expect(&card.kind);
                let bad = match (&o.result, &want) {
                    (_, CardExpect::Any) => false,
                    (OpResult::Ok(OkVal::Bank), CardExpect::Bank | CardExpect::BankOrErr) => false,
                    (OpResult::Ok(OkVal::Membership(m)), CardExpect::Membership(w) | CardExpect::MembershipOrErr(w)) => m != w,
                    (OpResult::Ok(_), _) => true,
                    (OpResult::Err { kind: ErrKind::NoCardPresented, .. }, CardExpect::NoCard) => false,
                    (OpResult::Err { kind: ErrKind::NoCardPresented, .. }, _) => true,
                    _ => false,
                };
                if bad {
                    j.fail("C18", "card_identity", "under_faults", format!("status data {:?} must classify as {:?} (or fail), read_card returned {}", card.kind, want, match &o.result {
                        OpResult::Ok(v) => format!("Ok({:?})", v),
                        other => other.class(),
                    }));
                } else if o.result.is_ok() {
                    j.stats.hit("probe.card_classified_after_retry");
                }
                // ... and a card the terminal did deliver is not lost: when the last read-card exchange
                // of the call ran to its end (status information emitted, no fault on it), trouble in an
                // earlier attempt of the same call is no reason to fail
                let last_rc = reqs.iter().rev().find(|r| (r.frame[0], r.frame[1]) == (0x06, 0xc0));
                if let Some(last) = last_rc {
                    let delivered = last.completed.is_some() && last.pkt.is_some();
                    let definite = matches!(want, CardExpect::Bank | CardExpect::Membership(_));
                    if delivered && definite && matches!(o.result, OpResult::Err { .. }) && reqs.iter().filter(|r| (r.frame[0], r.frame[1]) == (0x06, 0xc0)).count() > 1 {
                        j.fail("C18", "card_lost_after_retry", "under_faults", format!("the retried read-card exchange delivered {:?}, yet read_card returned {}", card.kind, o.result.class()));
                    }
                }
            }
        }
        let mut h = Hasher64::default();
        h.u64(max as u64);
        for t in open.keys() {
            h.str(t);
        }
        j.states.push(h.finish());
    }
    j
}

/// The one rule for runs in which the terminal registered with another currency than the configured
/// one: every reservation, partial reversal and pre-authorisation reversal that does go out names the
/// configured currency (C08). Whether the client serves such a terminal at all is its own business.
pub fn judge_currency_only(plan: &ClientPlan, run: &ClientRun) -> Judged {
    let mut j = Judged { v: vec![], states: vec![], stats: Stats::default() };
    for o in &run.ops {
        if let OpResult::Panic { loc, msg } = &o.result {
            j.fail("*", "panic", panic_sig(loc, msg), format!("{} panicked at {loc}: {msg}", o.name));
            return j;
        }
    }
    let cur = plan.cfg.currency as u64;
    let reqs: Vec<ReqLog> = run.pt.lock().unwrap().requests.clone();
    for r in reqs.iter().filter(|r| r.op >= 0) {
        if let Some(p) = r.pkt.as_ref() {
            if matches!(p.cf, (0x06, 0x22) | (0x06, 0x23) | (0x06, 0x25)) && p.get(0x49).is_some() && p.get_bcd(0x49) != Some(cur) {
                let (rule, sig) = match p.cf {
                    (0x06, 0x22) => ("reservation_fields", "begin/currency"),
                    (0x06, 0x23) => ("commit_fields", "commit/currency"),
                    _ => ("cancel_fields", "cancel/currency"),
                };
                j.fail("C08", rule, sig, format!("request {} names currency {:?}; configured is {cur} (the terminal registered with {:?})", crate::conn::hex(&r.frame), p.get_bcd(0x49), plan.pt.registration_currency));
                break;
            }
            j.stats.hit("probe.request_under_foreign_registration_currency");
        }
    }
    j
}

/// Shape of a run for the "distinct" measure: per call (name, result class, control fields sent).
pub fn shape_of(plan: &ClientPlan, run: &ClientRun) -> u64 {
    let mut h = Hasher64::default();
    h.u64(plan.cfg.max_tx as u64);
    for o in &run.ops {
        h.str(o.name);
        h.str(&match &o.result {
            OpResult::Err { kind, .. } => format!("{:?}", kind).split('(').next().unwrap_or("").to_string(),
            other => other.class(),
        });
        for r in run.requests_of(o.index) {
            h.u8(r.frame[0]);
            h.u8(r.frame[1]);
            h.u64(r.conn as u64);
        }
    }
    let pt = run.pt.lock().unwrap();
    for f in &pt.fired {
        h.str(&format!("{:?}", f.kind).split('(').next().unwrap_or("").to_string());
        h.u8(f.during.0);
        h.u8(f.during.1);
        h.u8(f.at_ack as u8);
    }
    h.finish()
}
