//! Client engine: the real `zvt_feig_terminal::Feig` (real `Feig::new`, real
//! reconnecting stream, real handshake, real sequences and codec) on a tokio
//! current-thread runtime with paused clock, talking to the simulated
//! terminal through the `zvt_verif` hook. One plan = one exactly repeatable run.
use crate::conn::{sim_conn, ConnHandle, Ev, Log, Sched, SharedLog};
use crate::framework::{guarded, Stats};
use crate::pt::*;
use crate::rng::mix;
use serde::{Deserialize, Serialize};
use std::net::Ipv4Addr;
use std::sync::{Arc, Mutex};
use std::time::Duration;
use zvt_feig_terminal::config::{Config, FeigConfig};
use zvt_feig_terminal::feig::{CardInfo, Error as FeigError, Feig};
use zvt_feig_terminal::verif_hook;

pub const WATCHDOG: Duration = Duration::from_secs(86_400);

#[derive(Clone, Debug, PartialEq, Serialize, Deserialize)]
pub struct CfgSpec {
    pub serial: String,
    pub terminal_id: String,
    pub password: u32,
    pub currency: u16,
    pub pre_auth: u64,
    pub read_card_timeout: u8,
    pub max_tx: u8,
    /// `transactions_max_num` beyond what `max_tx` can say (the field is a usize); overrides it.
    #[serde(default)]
    pub max_tx_wide: Option<u64>,
}

impl CfgSpec {
    pub fn plain() -> Self {
        CfgSpec {
            serial: "17FD1E3C".into(),
            terminal_id: "52523535".into(),
            password: 123456,
            currency: 978,
            pre_auth: 2500,
            read_card_timeout: 15,
            max_tx: 1,
            max_tx_wide: None,
        }
    }
}

#[derive(Clone, Debug, PartialEq, Serialize, Deserialize)]
pub enum OpSpec {
    Begin { token: String, res: ResOutcome },
    Commit { token: String, amount: u64, rev: RevOutcome, cleanup: CleanupSpec },
    Cancel { token: String, rev: RevOutcome, cleanup: CleanupSpec },
    ReadCard { card: CardOutcome },
    Configure { out: ConfigureOutcome },
}

impl OpSpec {
    pub fn name(&self) -> &'static str {
        match self {
            OpSpec::Begin { .. } => "begin",
            OpSpec::Commit { .. } => "commit",
            OpSpec::Cancel { .. } => "cancel",
            OpSpec::ReadCard { .. } => "read_card",
            OpSpec::Configure { .. } => "configure",
        }
    }
}

#[derive(Clone, Copy, Debug, PartialEq, Eq, Serialize, Deserialize)]
pub enum ConnectSpec {
    Ok,
    Refused,
    /// The connect future never resolves.
    Hang,
    DelayMs(u32),
}

fn connect_ok() -> ConnectSpec {
    ConnectSpec::Ok
}

#[derive(Clone, Debug, PartialEq, Serialize, Deserialize)]
pub struct ClientPlan {
    pub cfg: CfgSpec,
    pub pt: PtSpec,
    /// Outcomes of the configure() that Feig::new runs.
    pub init: ConfigureOutcome,
    pub ops: Vec<OpSpec>,
    pub faults: Vec<FaultSpec>,
    /// Per connect attempt (in order); attempts beyond the list behave as `connects_then`.
    pub connects: Vec<ConnectSpec>,
    #[serde(default = "connect_ok")]
    pub connects_then: ConnectSpec,
    pub sched: Sched,
    /// Schedule noise: with `delay_pct` % the terminal emits a frame up to
    /// `max_delay_ms` late (strictly below every client timeout).
    pub max_delay_ms: u32,
    pub delay_pct: u8,
    pub label: String,
    /// Caller-side cancellation: the future of call number `.0` is dropped after `.1` virtual
    /// milliseconds if it has not returned by then (a caller's own time-out, a `select!`, a task
    /// abort). What the cancelled call left behind is not judged; the calls after it are.
    #[serde(default)]
    pub cancel_after: Vec<(u16, u64)>,
}

impl ClientPlan {
    pub fn plain(ops: Vec<OpSpec>) -> Self {
        ClientPlan {
            cfg: CfgSpec::plain(),
            pt: PtSpec {
                serial: "17FD1E3C".into(),
                terminal_id: "52523535".into(),
                temperature: "24.4".into(),
                receipt_start: 231,
                bmp_reversed: false,
                status_seed: 7,
                rich_status: false,
                dead_from_conn: None,
                dead_point: 1,
                abort_extras: 0,
                status_currency: None,
                pace_ms: 0,
                frame_pause: None,
                status_codes: 0,
                intermediate_timeout: None,
                script_order: 0,
                decorated: 0,
                reversal_abort_receipt: None,
                close_after_each_exchange: false,
                handshake_pace_ms: 0,
                long_status_text: 0,
                nack_keeps_connection: false,
                registration_currency: None,
                eod_abort_receipt: None,
                status_shows_abort_code: false,
                silent_terminal_stops_reading: false,
                init_abort_first_n: 0,
                reservation_status_amount: None,
            },
            init: ConfigureOutcome::plain(),
            ops,
            faults: vec![],
            connects: vec![],
            connects_then: ConnectSpec::Ok,
            sched: Sched::whole(),
            max_delay_ms: 0,
            delay_pct: 0,
            label: String::new(),
            cancel_after: vec![],
        }
    }
}

#[derive(Clone, Debug, PartialEq)]
pub enum ErrKind {
    ActiveTransaction(String),
    UnknownToken(String),
    NoCardPresented,
    NeedsPinEntry,
    UnexpectedPacket,
    Aborted(u8),
    IncompleteData,
    OtherZvt(String),
    Other,
}

#[derive(Clone, Debug, PartialEq)]
pub enum OkVal {
    Unit,
    Bank,
    Membership(String),
    Summary {
        terminal_id: Option<String>,
        amount: Option<u64>,
        trace_number: Option<u64>,
        date: Option<String>,
        time: Option<String>,
    },
}

#[derive(Clone, Debug, PartialEq)]
pub enum OpResult {
    Ok(OkVal),
    Err { kind: ErrKind, text: String, debug: String },
    /// The one-virtual-day watchdog fired.
    Hang,
    Panic { loc: String, msg: String },
}

impl OpResult {
    pub fn class(&self) -> String {
        match self {
            OpResult::Ok(_) => "Ok".into(),
            OpResult::Err { kind, .. } => format!("Err({:?})", kind),
            OpResult::Hang => "Hang".into(),
            OpResult::Panic { .. } => "Panic".into(),
        }
    }
    pub fn is_ok(&self) -> bool {
        matches!(self, OpResult::Ok(_))
    }
}

fn classify(e: &anyhow::Error) -> OpResult {
    let kind = if let Some(f) = e.downcast_ref::<FeigError>() {
        match f {
            FeigError::ActiveTransaction(s) => ErrKind::ActiveTransaction(s.clone()),
            FeigError::UnknownToken(s) => ErrKind::UnknownToken(s.clone()),
            FeigError::NoCardPresented => ErrKind::NoCardPresented,
            FeigError::NeedsPinEntry => ErrKind::NeedsPinEntry,
            // a variant this harness does not know (added by a later change of the crate)
            #[allow(unreachable_patterns)]
            _ => ErrKind::Other,
        }
    } else if let Some(z) = e.downcast_ref::<zvt::ZVTError>() {
        match z {
            zvt::ZVTError::Aborted(c) => ErrKind::Aborted(*c),
            zvt::ZVTError::IncompleteData => ErrKind::IncompleteData,
            other => ErrKind::OtherZvt(format!("{:?}", other)),
        }
    } else {
        ErrKind::Other
    };
    OpResult::Err {
        kind,
        text: format!("{:#}", e),
        debug: format!("{:?}", e),
    }
}

#[derive(Clone, Debug)]
pub struct OpRecord {
    pub index: i32,
    pub name: &'static str,
    pub result: OpResult,
    /// Event-log index range of the call.
    pub log_from: usize,
    pub log_to: usize,
    pub t_from_ms: u64,
    pub t_to_ms: u64,
    /// The terminal's ledger right after the call returned.
    pub ledger: std::collections::BTreeMap<u16, LedgerEntry>,
}

pub struct ConnInfo {
    pub id: u16,
    pub handle: ConnHandle,
    pub opened_seq: usize,
}

pub struct ClientRun {
    /// index -1 = Feig::new, then one per op (until a hang/panic ends the run).
    pub ops: Vec<OpRecord>,
    pub log: SharedLog,
    pub pt: Pt,
    pub conns: Vec<ConnInfo>,
    pub connect_attempts: u32,
    /// Event log index of every connect attempt with its outcome.
    pub connect_log: Vec<(usize, ConnectSpec)>,
    pub aborted: bool,
}

struct World {
    conns: Vec<ConnInfo>,
    attempts: u32,
    connect_log: Vec<(usize, ConnectSpec)>,
}

fn load_cleanup(q: &mut OutcomeQueues, c: &CleanupSpec) {
    q.pending.push_back((c.pending, c.pending_pre));
    q.preauth_reversal.push_back(c.cancel.clone());
    q.eod.push_back(c.eod.clone());
}

fn load_configure(q: &mut OutcomeQueues, c: &ConfigureOutcome) {
    q.sysinfo.push_back(c.sysinfo);
    q.set_tid.push_back(c.set_tid);
    q.init.push_back((c.init_pre, c.init_prints, c.init));
    load_cleanup(q, &c.cleanup);
}

/// Executes `plan` and returns everything the oracles may look at.
pub fn execute(plan: &ClientPlan) -> ClientRun {
    let log: SharedLog = Arc::new(Mutex::new(Log::default()));
    let pt: Pt = Arc::new(Mutex::new(PtShared::new(
        plan.pt.clone(),
        plan.faults.clone(),
        (plan.max_delay_ms as u64, plan.delay_pct as u32, mix(&[plan.sched.seed, 0xde1a])),
    )));
    let world = Arc::new(Mutex::new(World {
        conns: vec![],
        attempts: 0,
        connect_log: vec![],
    }));
    let ops_rec: Arc<Mutex<Vec<OpRecord>>> = Arc::new(Mutex::new(vec![]));
    let aborted = Arc::new(Mutex::new(false));

    let rt = tokio::runtime::Builder::new_current_thread()
        .enable_time()
        .start_paused(true)
        .build()
        .expect("runtime");

    // the connector behind the hook
    {
        let (world, pt, log, plan_c) = (world.clone(), pt.clone(), log.clone(), plan.clone());
        verif_hook::install(Box::new(move |_addr| {
            let (world, pt, log) = (world.clone(), pt.clone(), log.clone());
            let mut w = world.lock().unwrap();
            let attempt = w.attempts;
            w.attempts += 1;
            let spec = plan_c.connects.get(attempt as usize).copied().unwrap_or(plan_c.connects_then);
            let seq = log.lock().unwrap().entries.len();
            w.connect_log.push((seq, spec));
            log.lock().unwrap().note(format!("connect attempt {attempt}: {:?}", spec));
            drop(w);
            let sched = plan_c.sched.clone();
            Box::pin(async move {
                match spec {
                    ConnectSpec::Refused => {
                        return Err(std::io::Error::new(
                            std::io::ErrorKind::ConnectionRefused,
                            "sim: connection refused",
                        ))
                    }
                    ConnectSpec::Hang => {
                        futures::future::pending::<()>().await;
                        unreachable!()
                    }
                    ConnectSpec::DelayMs(ms) => tokio::time::sleep(Duration::from_millis(ms as u64)).await,
                    ConnectSpec::Ok => {}
                }
                let mut w = world.lock().unwrap();
                let id = w.conns.len() as u16;
                let mut s = sched.clone();
                s.seed = mix(&[sched.seed, id as u64]);
                let (conn, handle) = sim_conn(id, s, Box::new(PtConn::new(pt.clone(), id)), log.clone());
                let opened_seq = log.lock().unwrap().entries.len();
                log.lock().unwrap().push(id, 0, Ev::Open);
                w.conns.push(ConnInfo {
                    id,
                    handle,
                    opened_seq,
                });
                Ok(Box::new(conn) as Box<dyn verif_hook::VerifIo>)
            })
        }));
    }

    // The terminal configuration goes through the crate's own JSON deserializer whenever the
    // currency has an ISO 4217 name (independent table: SEK 752, GBP 826, EUR 978), so that the
    // name -> number mapping is part of what runs.
    let iso_name = match plan.cfg.currency {
        752 => Some("SEK"),
        826 => Some("GBP"),
        978 => Some("EUR"),
        _ => None,
    };
    let feig_config = match iso_name {
        Some(name) => {
            let json = format!(
                "{{\"currency\": \"{}\", \"pre_authorization_amount\": {}, \"read_card_timeout\": {}, \"password\": {}}}",
                name, plan.cfg.pre_auth, plan.cfg.read_card_timeout, plan.cfg.password
            );
            match serde_json::from_str::<FeigConfig>(&json) {
                Ok(c) => c,
                Err(e) => {
                    // the crate refuses a configuration it documents: reported as a failed start
                    verif_hook::uninstall();
                    return ClientRun {
                        ops: vec![OpRecord {
                            index: -1,
                            name: "new",
                            result: OpResult::Err {
                                kind: ErrKind::Other,
                                text: format!("FeigConfig rejected {json}: {e}"),
                                debug: String::new(),
                            },
                            log_from: 0,
                            log_to: 0,
                            t_from_ms: 0,
                            t_to_ms: 0,
                            ledger: Default::default(),
                        }],
                        log,
                        pt,
                        conns: vec![],
                        connect_attempts: 0,
                        connect_log: vec![],
                        aborted: true,
                    };
                }
            }
        }
        None => FeigConfig {
            currency: plan.cfg.currency as usize,
            pre_authorization_amount: plan.cfg.pre_auth as usize,
            read_card_timeout: plan.cfg.read_card_timeout,
            password: plan.cfg.password as usize,
            // (tolerates configuration fields added later)
            ..FeigConfig::default()
        },
    };
    let config = Config {
        terminal_id: plan.cfg.terminal_id.clone(),
        feig_serial: plan.cfg.serial.clone(),
        ip_address: Ipv4Addr::new(192, 168, 0, 59),
        feig_config,
        transactions_max_num: plan.cfg.max_tx_wide.map(|v| v as usize).unwrap_or(plan.cfg.max_tx as usize),
        ..Config::default()
    };

    {
        let (pt, log, ops_rec, aborted) = (pt.clone(), log.clone(), ops_rec.clone(), aborted.clone());
        let plan = plan.clone();
        rt.block_on(async move {
            log.lock().unwrap().t0 = Some(tokio::time::Instant::now());
            let record = |index: i32, name: &'static str, result: OpResult, from: (usize, u64)| {
                let (to, t_to) = {
                    let l = log.lock().unwrap();
                    (l.entries.len(), l.now_ms())
                };
                let ledger = pt.lock().unwrap().ledger.clone();
                ops_rec.lock().unwrap().push(OpRecord {
                    index,
                    name,
                    result,
                    log_from: from.0,
                    log_to: to,
                    t_from_ms: from.1,
                    t_to_ms: t_to,
                    ledger,
                });
            };
            let start = |index: i32, name: &str| -> (usize, u64) {
                pt.lock().unwrap().current_op = index;
                let mut l = log.lock().unwrap();
                l.note(format!("op {index} {name} begin"));
                (l.entries.len(), l.now_ms())
            };
            // Feig::new (runs configure())
            {
                let mut p = pt.lock().unwrap();
                p.q = OutcomeQueues::default();
                load_configure(&mut p.q, &plan.init);
            }
            let from = start(-1, "new");
            let r = guarded_async(tokio::time::timeout(WATCHDOG, Feig::new(config))).await;
            let mut feig = match r {
                Ok(Ok(Ok(f))) => {
                    record(-1, "new", OpResult::Ok(OkVal::Unit), from);
                    f
                }
                Ok(Ok(Err(e))) => {
                    record(-1, "new", classify(&e), from);
                    *aborted.lock().unwrap() = true;
                    return;
                }
                Ok(Err(_)) => {
                    record(-1, "new", OpResult::Hang, from);
                    *aborted.lock().unwrap() = true;
                    return;
                }
                Err((loc, msg)) => {
                    record(-1, "new", OpResult::Panic { loc, msg }, from);
                    *aborted.lock().unwrap() = true;
                    return;
                }
            };
            for (i, op) in plan.ops.iter().enumerate() {
                {
                    let mut p = pt.lock().unwrap();
                    p.q = OutcomeQueues::default();
                    p.last_card = None;
                    p.sticky_res.clear();
                    p.sticky_rev.clear();
                    match op {
                        OpSpec::Begin { res, .. } => p.q.reservation.push_back(res.clone()),
                        OpSpec::Commit { rev, cleanup, .. } => {
                            p.q.partial_reversal.push_back(rev.clone());
                            load_cleanup(&mut p.q, cleanup);
                        }
                        OpSpec::Cancel { rev, cleanup, .. } => {
                            // the transaction's own reversal first, then the clean-up's
                            p.q.preauth_reversal.push_back(rev.clone());
                            load_cleanup(&mut p.q, cleanup);
                        }
                        OpSpec::ReadCard { card } => p.q.card.push_back(card.clone()),
                        OpSpec::Configure { out } => load_configure(&mut p.q, out),
                    }
                }
                let from = start(i as i32, op.name());
                let fut = async {
                    match op {
                        OpSpec::Begin { token, .. } => feig.begin_transaction(token).await.map(|_| OkVal::Unit),
                        OpSpec::Commit { token, amount, .. } => {
                            feig.commit_transaction(token, *amount).await.map(|s| OkVal::Summary {
                                terminal_id: s.terminal_id,
                                amount: s.amount,
                                trace_number: s.trace_number,
                                date: s.date,
                                time: s.time,
                            })
                        }
                        OpSpec::Cancel { token, .. } => feig.cancel_transaction(token).await.map(|_| OkVal::Unit),
                        OpSpec::ReadCard { .. } => feig.read_card().await.map(|c| match c {
                            CardInfo::Bank => OkVal::Bank,
                            CardInfo::MembershipCard(m) => OkVal::Membership(m),
                            #[allow(unreachable_patterns)]
                            _ => OkVal::Unit,
                        }),
                        OpSpec::Configure { .. } => feig.configure().await.map(|_| OkVal::Unit),
                    }
                };
                let limit = plan.cancel_after.iter().find(|(k, _)| *k as usize == i).map(|(_, ms)| Duration::from_millis(*ms));
                if let Some(d) = limit {
                    // the caller gives the call up after `d`: its future is dropped where it stands
                    let r = guarded_async(tokio::time::timeout(d, fut)).await;
                    match r {
                        Ok(Ok(Ok(v))) => record(i as i32, op.name(), OpResult::Ok(v), from),
                        Ok(Ok(Err(e))) => record(i as i32, op.name(), classify(&e), from),
                        Ok(Err(_)) => {
                            log.lock().unwrap().note(format!("call {i} cancelled by the caller after {} ms", d.as_millis()));
                            record(i as i32, op.name(), OpResult::Err { kind: ErrKind::Other, text: "cancelled by the caller".into(), debug: String::new() }, from);
                        }
                        Err((loc, msg)) => {
                            record(i as i32, op.name(), OpResult::Panic { loc, msg }, from);
                            *aborted.lock().unwrap() = true;
                            std::mem::forget(feig);
                            return;
                        }
                    }
                    continue;
                }
                let r = guarded_async(tokio::time::timeout(WATCHDOG, fut)).await;
                match r {
                    Ok(Ok(Ok(v))) => record(i as i32, op.name(), OpResult::Ok(v), from),
                    Ok(Ok(Err(e))) => record(i as i32, op.name(), classify(&e), from),
                    Ok(Err(_)) => {
                        record(i as i32, op.name(), OpResult::Hang, from);
                        *aborted.lock().unwrap() = true;
                        return;
                    }
                    Err((loc, msg)) => {
                        record(i as i32, op.name(), OpResult::Panic { loc, msg }, from);
                        *aborted.lock().unwrap() = true;
                        // the client's state after a panic is undefined: stop the history
                        std::mem::forget(feig);
                        return;
                    }
                }
            }
            log.lock().unwrap().note("history end");
            drop(feig);
        });
    }
    verif_hook::uninstall();
    drop(rt);
    let mut w = world.lock().unwrap();
    let ops = std::mem::take(&mut *ops_rec.lock().unwrap());
    let aborted = *aborted.lock().unwrap();
    ClientRun {
        ops,
        log,
        pt,
        conns: std::mem::take(&mut w.conns),
        connect_attempts: w.attempts,
        connect_log: std::mem::take(&mut w.connect_log),
        aborted,
    }
}

/// `catch_unwind` around a future's polls.
async fn guarded_async<F: std::future::Future>(f: F) -> Result<F::Output, (String, String)> {
    use futures::FutureExt;
    let _ = crate::framework::take_panic();
    match std::panic::AssertUnwindSafe(f).catch_unwind().await {
        Ok(v) => Ok(v),
        Err(_) => {
            let (loc, msg) = crate::framework::take_panic().unwrap_or_default();
            if loc.contains("/verif/sim/") || loc.starts_with("src/") {
                eprintln!("HARNESS ERROR: panic in harness at {loc}: {msg}");
                std::process::exit(2);
            }
            Err((loc, msg))
        }
    }
}

/// Runs `execute` with harness-panic protection.
pub fn run(plan: &ClientPlan) -> ClientRun {
    match guarded(|| execute(plan)) {
        Ok(r) => r,
        Err((loc, msg)) => {
            eprintln!("HARNESS ERROR: panic outside a guarded call at {loc}: {msg}");
            std::process::exit(2);
        }
    }
}

// ---------------------------------------------------------------- helpers for oracles

impl ClientRun {
    /// Requests (command frames) the terminal received during call `op`.
    /// The command frames the terminal received during call `op` - without the handshake frames
    /// (Registration + identity request) of any connection that was opened during it.
    pub fn requests_of(&self, op: i32) -> Vec<ReqLog> {
        self.pt
            .lock()
            .unwrap()
            .requests
            .iter()
            .filter(|r| r.op == op && !r.handshake)
            .cloned()
            .collect()
    }

    pub fn sim_ms(&self) -> u64 {
        self.ops.last().map(|o| o.t_to_ms).unwrap_or(0)
    }

    pub fn add_stats(&self, stats: &mut Stats) {
        for c in &self.conns {
            stats.add_fired(&c.handle.fired());
        }
        stats.sim_ms += self.sim_ms();
        stats.add("probe.connections_opened", self.conns.len() as u64);
        let pt = self.pt.lock().unwrap();
        if pt.not_a_fault > 0 {
            stats.add("probe.planned_fault_decodable_for_the_library", pt.not_a_fault);
        }
        for f in &pt.fired {
            stats.hit(match f.kind {
                FaultKind::Eof => "fault.eof",
                FaultKind::EofMid(_) => "fault.eof_mid_frame",
                FaultKind::Reset => "fault.reset",
                FaultKind::Nack(_) => "fault.nack",
                FaultKind::Foreign(..) => "fault.foreign_cf",
                FaultKind::BadBody => "fault.bad_body",
                FaultKind::Junk => "fault.junk",
                FaultKind::Silence => "fault.silence",
                FaultKind::WrongSerial => "fault.wrong_serial",
                FaultKind::EpipeAfter => "fault.epipe_after",
                FaultKind::StallMid(_) => "fault.stall_mid_frame",
                FaultKind::IdentityAbort(_) => "fault.identity_abort",
                FaultKind::StaleAfter(_) => "fault.stale_bytes_after_frame",
                FaultKind::CloseIdle => "fault.closed_while_idle",
                FaultKind::ReadErr(_) => "fault.transient_read_error_kind",
            });
        }
        stats.add("probe.duplicate_reservation", pt.duplicate_reservations);
        for (_, c) in &self.connect_log {
            match c {
                ConnectSpec::Refused => stats.hit("fault.connect_refused"),
                ConnectSpec::Hang => stats.hit("fault.connect_hang"),
                ConnectSpec::DelayMs(_) => stats.hit("sched.connect_delay"),
                ConnectSpec::Ok => {}
            }
        }
    }

    pub fn trace(&self) -> Vec<String> {
        let mut t = self.log.lock().unwrap().render();
        for o in &self.ops {
            t.push(format!(
                "op {} {} -> {} [{}..{} ms]",
                o.index,
                o.name,
                match &o.result {
                    OpResult::Ok(v) => format!("Ok({:?})", v),
                    OpResult::Err { kind, text, .. } => format!("Err({:?}: {})", kind, text),
                    OpResult::Hang => "HANG (one-virtual-day watchdog)".into(),
                    OpResult::Panic { loc, msg } => format!("PANIC at {loc}: {msg}"),
                },
                o.t_from_ms,
                o.t_to_ms
            ));
        }
        if t.len() > 500 {
            let tail = t.split_off(t.len() - 150);
            t.truncate(250);
            t.push("...".into());
            t.extend(tail);
        }
        t
    }

    pub fn trace_hash(&self) -> u64 {
        let mut h = crate::rng::Hasher64::default();
        h.u64(self.log.lock().unwrap().hash());
        for o in &self.ops {
            h.str(&o.result.class());
        }
        h.finish()
    }
}

pub fn default_sched_variants(k: u64, seed: u64) -> Sched {
    match k % 4 {
        0 => Sched::whole(),
        1 => Sched::one_byte(),
        _ => {
            let mut r = crate::rng::Rng::new(seed);
            Sched::random(&mut r)
        }
    }
}
