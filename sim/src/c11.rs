//! C11 — firmware upload sends exactly the requested bytes of the right file.
//! The real `feig::sequences::WriteFile::into_stream` walks a payload
//! directory the simulator wrote (PRNG subset of the 21 recognised paths,
//! unrelated files, PRNG sizes and content) and answers a scripted
//! terminal's data requests; the reference model compares every answer with
//! the files on disk, byte for byte.
use crate::conn::{sim_conn, Ev, Log, Sched, SharedLog};
use crate::exchange::{ExPlan, Mode, ScriptTerm, TermRecord};
use crate::exec::{self, Outcome};
use crate::framework::{guarded, panic_sig, Check, Family, RunOut, Tier};
use crate::refcodec::{self as rc, Pkt, TlvVal};
use crate::rng::{mix, Hasher64, Rng};
use crate::seqs::{self, InParams, Item, Recorded, SeqId};
use serde::{Deserialize, Serialize};
use std::collections::BTreeMap;
use std::sync::atomic::{AtomicU64, Ordering};
use std::sync::{Arc, Mutex};
use tokio_stream::StreamExt;
use zvt::io::PacketTransport;

pub struct C11;

/// Path -> file id (Feig cVEND manual 6.13, table 2), stated independently.
pub const ID_TABLE: [(&str, u8); 21] = [
    ("firmware/kernel.gz", 0x10),
    ("firmware/rootfs.gz", 0x11),
    ("firmware/components.tar.gz", 0x12),
    ("firmware/update.spec", 0x13),
    ("firmware/update_extended.spec", 0x14),
    ("app0/update.spec", 0x20),
    ("app0/update.tar.gz", 0x21),
    ("app1/update.spec", 0x22),
    ("app1/update.tar.gz", 0x23),
    ("app2/update.spec", 0x24),
    ("app2/update.tar.gz", 0x25),
    ("app3/update.spec", 0x26),
    ("app3/update.tar.gz", 0x27),
    ("app4/update.spec", 0x28),
    ("app4/update.tar.gz", 0x29),
    ("app5/update.spec", 0x30),
    ("app5/update.tar.gz", 0x31),
    ("app6/update.spec", 0x32),
    ("app6/update.tar.gz", 0x33),
    ("app7/update.spec", 0x34),
    ("app7/update.tar.gz", 0x35),
];

#[derive(Clone, Debug, PartialEq, Serialize, Deserialize)]
pub enum Req {
    /// Well-formed request.
    Data { id: u8, offset: u32 },
    NoId { offset: u32 },
    NoOffset { id: u8 },
    /// Tags 1D/1E directly in the TLV container, without the 2D wrapper.
    NoContainer { id: u8, offset: u32 },
    /// No TLV container at all.
    NoTlv,
}

#[derive(Clone, Debug, PartialEq, Serialize, Deserialize)]
pub enum End {
    Completion,
    Abort(u8),
}

#[derive(Clone, Debug, PartialEq, Serialize, Deserialize)]
pub struct C11Plan {
    pub content_seed: u64,
    /// (index into ID_TABLE, size)
    pub files: Vec<(u8, u32)>,
    /// Unrelated entries: relative path, is_dir
    pub extra: Vec<(String, bool)>,
    pub block: u32,
    pub password: u32,
    pub requests: Vec<Req>,
    pub end: End,
    pub mode: Mode,
    pub sched: Sched,
    pub paced_cuts: Vec<u32>,
    /// Paced mode: virtual milliseconds before segment k reaches the client (see ExPlan).
    #[serde(default)]
    pub paced_gaps_ms: Vec<u32>,
    /// The terminal -> client stream ends after this many bytes (connection lost mid-upload).
    #[serde(default)]
    pub cut: Option<(u32, crate::conn::CloseKind)>,
    /// File-system faults (through the `zvt_verif` hook of crate zvt): the `nth` open / read_at of
    /// the file with this id fails or comes back short.
    #[serde(default)]
    pub fs_faults: Vec<FsFault>,
    /// Indices into `files`: these recognised files are symbolic links to a file stored elsewhere.
    #[serde(default)]
    pub symlinks: Vec<u8>,
    /// A further upload from the *same* payload directory in the same run (and process), after the
    /// directory has been brought to this plan's state: files replaced by new ones of other size and
    /// content (new inodes: written aside and renamed over), removed, added.
    #[serde(default)]
    pub then: Option<Box<C11Plan>>,
}

#[derive(Clone, Copy, Debug, PartialEq, Serialize, Deserialize)]
pub enum FsOpKind {
    Open,
    Read,
}

#[derive(Clone, Copy, Debug, PartialEq, Serialize, Deserialize)]
pub enum FsKind {
    /// 0 = EIO-like (Other), 1 = NotFound, 2 = PermissionDenied, 3 = Interrupted
    Fail(u8),
    /// read_at returns at most this many bytes (>= 1) although more are available
    Short(u32),
}

#[derive(Clone, Copy, Debug, PartialEq, Serialize, Deserialize)]
pub struct FsFault {
    pub file: u8,
    pub op: FsOpKind,
    pub nth: u32,
    pub kind: FsKind,
}

#[derive(Clone, Debug)]
struct FsFired {
    fault: FsFault,
    /// read cursor of the connection when the fault fired (which request was being answered)
    cursor: u64,
    /// for Short: did it actually shorten the read (more bytes were available)?
    bit: bool,
}

#[derive(Default)]
struct FsState {
    opens: BTreeMap<u8, u32>,
    reads: BTreeMap<u8, u32>,
    fired: Vec<FsFired>,
}

fn id_of_path(p: &std::path::Path) -> Option<u8> {
    let s = p.to_string_lossy();
    ID_TABLE.iter().find(|(rel, _)| s.ends_with(&format!("/payload/{rel}"))).map(|(_, id)| *id)
}

/// Where the first failing file operation hit.
#[derive(Clone, Copy, Debug, PartialEq)]
enum FsErrAt {
    Manifest,
    /// request i was read completely; the file operation behind its answer failed: no answer
    Request(usize),
    /// requests 0..i were answered; the failing operation came before request i was read
    /// (e.g. an implementation that opens all files right after the acknowledgement)
    BeforeRequest(usize),
    /// cannot be attributed to a request boundary (the client's cursor was elsewhere)
    Unknown,
}

fn content(seed: u64, id: u8, size: u32) -> Vec<u8> {
    let mut rng = Rng::new(mix(&[seed, id as u64]));
    let mut v = Vec::with_capacity(size as usize);
    while v.len() < size as usize {
        let x = rng.next_u64().to_le_bytes();
        let n = (size as usize - v.len()).min(8);
        v.extend_from_slice(&x[..n]);
    }
    v
}

fn request_frame(r: &Req) -> Vec<u8> {
    match r {
        Req::Data { id, offset } => rc::request_for_data(Some(*id), Some(*offset), true, true),
        Req::NoId { offset } => rc::request_for_data(None, Some(*offset), true, true),
        Req::NoOffset { id } => rc::request_for_data(Some(*id), None, true, true),
        Req::NoContainer { id, offset } => rc::request_for_data(Some(*id), Some(*offset), false, true),
        Req::NoTlv => rc::request_for_data(None, None, false, false),
    }
}

static SCRATCH_COUNTER: AtomicU64 = AtomicU64::new(0);

struct Scratch(std::path::PathBuf);

impl Scratch {
    fn new() -> Scratch {
        let base = if std::path::Path::new("/dev/shm").is_dir() {
            std::path::PathBuf::from("/dev/shm")
        } else {
            std::env::temp_dir()
        };
        let n = SCRATCH_COUNTER.fetch_add(1, Ordering::SeqCst);
        let p = base.join(format!("zvt-sim-c11-{}-{}", std::process::id(), n));
        let _ = std::fs::remove_dir_all(&p);
        std::fs::create_dir_all(&p).expect("scratch dir");
        Scratch(p)
    }
}

impl Drop for Scratch {
    fn drop(&mut self) {
        let _ = std::fs::remove_dir_all(&self.0);
    }
}

pub fn run_plan(plan: &C11Plan, want_trace: bool) -> RunOut {
    let scratch = Scratch::new();
    let mut out = run_round(plan, &scratch, want_trace);
    let mut cur = plan;
    while out.violations.is_empty() {
        let Some(next) = cur.then.as_deref() else { break };
        let o2 = run_round(next, &scratch, want_trace);
        out.violations.extend(o2.violations);
        out.stats.merge(&o2.stats);
        out.stats.hit("probe.second_upload_from_the_same_directory");
        out.trace_hash ^= o2.trace_hash.rotate_left(17);
        out.shape ^= o2.shape.rotate_left(23);
        out.trace.extend(o2.trace);
        out.nontrivial = true;
        cur = next;
    }
    out
}

fn run_round(plan: &C11Plan, scratch: &Scratch, want_trace: bool) -> RunOut {
    let mut out = RunOut::new();
    let dir = scratch.0.join("payload");
    std::fs::create_dir_all(&dir).expect("payload dir");
    // recognised files of an earlier round that this round's directory does not hold
    for (rel, _) in ID_TABLE.iter() {
        let p = dir.join(rel);
        if (p.exists() || p.is_symlink()) && !plan.files.iter().any(|(pi, _)| ID_TABLE[*pi as usize % ID_TABLE.len()].0 == *rel) {
            let _ = std::fs::remove_file(&p);
        }
    }
    // -- the payload directory on (tmpfs) disk
    let mut truth: BTreeMap<u8, Vec<u8>> = BTreeMap::new();
    for (pi, size) in &plan.files {
        let (rel, id) = ID_TABLE[*pi as usize % ID_TABLE.len()];
        let p = dir.join(rel);
        std::fs::create_dir_all(p.parent().unwrap()).expect("mkdir");
        let c = content(plan.content_seed, id, *size);
        if plan.symlinks.contains(&(truth.len() as u8)) {
            // the recognised path is a symbolic link to the real file, kept outside the payload tree
            let store = scratch.0.join("store");
            std::fs::create_dir_all(&store).expect("store dir");
            let target = store.join(format!("blob-{id:02x}"));
            std::fs::write(&target, &c).expect("write link target");
            let _ = std::fs::remove_file(&p);
            std::os::unix::fs::symlink(&target, &p).expect("symlink");
        } else {
            // (written aside and renamed over: a file replaced between two uploads is a new inode)
            let tmp = p.with_extension("tmp-new");
            std::fs::write(&tmp, &c).expect("write payload file");
            let _ = std::fs::remove_file(&p);
            std::fs::rename(&tmp, &p).expect("rename payload file");
        }
        truth.insert(id, c);
    }
    for (rel, is_dir) in &plan.extra {
        let p = dir.join(rel);
        if *is_dir {
            let _ = std::fs::create_dir_all(&p);
        } else {
            if let Some(parent) = p.parent() {
                let _ = std::fs::create_dir_all(parent);
            }
            if !p.exists() {
                let _ = std::fs::write(&p, b"unrelated");
            }
        }
    }

    // -- the scripted terminal
    let mut replies: Vec<Vec<u8>> = plan.requests.iter().map(request_frame).collect();
    replies.push(match plan.end {
        End::Completion => rc::completion(),
        End::Abort(c) => rc::abort(c, rc::AbortExtra::None),
    });
    let mut ex = ExPlan::clean(SeqId::Registration, InParams::fixed(), replies.clone());
    ex.mode = plan.mode;
    ex.tail = rc::ACK.to_vec();
    ex.paced_cuts = plan.paced_cuts.clone();
    ex.paced_gaps_ms = plan.paced_gaps_ms.clone();
    ex.cut = plan.cut;
    let log: SharedLog = Arc::new(Mutex::new(Log::default()));
    let trec = Arc::new(Mutex::new(TermRecord::default()));
    let term = ScriptTerm::new(&ex, trec.clone());
    let (conn, h) = sim_conn(0, plan.sched.clone(), Box::new(term), log.clone());
    let rec: seqs::Rec = Arc::new(Mutex::new(Recorded::default()));
    let mut pt = PacketTransport { source: conn };
    let max_items = replies.len() + 8;
    let total_answer_bytes: u64 = plan.requests.len() as u64 * (plan.block as u64 + 64);
    let fs_state = Arc::new(Mutex::new(FsState::default()));
    if !plan.fs_faults.is_empty() {
        let (st, faults, hc, sizes, flog) = (
            fs_state.clone(),
            plan.fs_faults.clone(),
            h.clone(),
            truth.iter().map(|(k, v)| (*k, v.len() as u64)).collect::<BTreeMap<u8, u64>>(),
            log.clone(),
        );
        zvt::verif_hook::install_fs(Box::new(move |op| {
            use zvt::verif_hook::{FsDecision, FsOp};
            let mut st = st.lock().unwrap();
            let (id, kind, nth, avail) = match &op {
                FsOp::Open { path } => {
                    let Some(id) = id_of_path(path) else { return FsDecision::Real };
                    let c = st.opens.entry(id).or_insert(0);
                    *c += 1;
                    (id, FsOpKind::Open, *c - 1, 0u64)
                }
                FsOp::ReadAt { path, offset, len } => {
                    let Some(id) = id_of_path(path) else { return FsDecision::Real };
                    let c = st.reads.entry(id).or_insert(0);
                    *c += 1;
                    let size = sizes.get(&id).copied().unwrap_or(0);
                    (id, FsOpKind::Read, *c - 1, size.saturating_sub(*offset).min(*len as u64))
                }
            };
            let Some(f) = faults.iter().find(|f| f.file == id && f.op == kind && f.nth == nth) else {
                return FsDecision::Real;
            };
            let (dec, bit) = match (f.kind, kind) {
                (FsKind::Fail(k), _) => (
                    FsDecision::Fail(match k {
                        1 => std::io::ErrorKind::NotFound,
                        2 => std::io::ErrorKind::PermissionDenied,
                        3 => std::io::ErrorKind::Interrupted,
                        _ => std::io::ErrorKind::Other,
                    }),
                    true,
                ),
                (FsKind::Short(n), FsOpKind::Read) => (FsDecision::Short(n.max(1) as usize), (n.max(1) as u64) < avail),
                (FsKind::Short(_), FsOpKind::Open) => (FsDecision::Real, false),
            };
            if bit {
                flog.lock().unwrap().note(format!("fs fault {:?}", f));
            }
            st.fired.push(FsFired {
                fault: *f,
                cursor: hc.cursor(),
                bit,
            });
            dec
        }));
    }
    let res = {
        let rec = rec.clone();
        let h2 = h.clone();
        let log2 = log.clone();
        let idle_h = h.clone();
        let dir = dir.clone();
        let (password, block) = (plan.password, plan.block);
        guarded(move || {
            let fut = async {
                let mut stream = zvt::feig::sequences::WriteFile::into_stream(dir, password as usize, block, &mut pt);
                loop {
                    let next = stream.next().await;
                    let mut r = rec.lock().unwrap();
                    let seq = log2.lock().unwrap().entries.len();
                    match next {
                        Some(item) => {
                            let res = match item {
                                Ok(v) => Ok(format!("{:?}", v)),
                                Err(e) => Err(format!("{:#}", e)),
                            };
                            log2.lock().unwrap().note(match &res {
                                Ok(s) => format!("yield {}", &s[..s.len().min(100)]),
                                Err(e) => format!("yield Err({e})"),
                            });
                            r.items.push(Item {
                                res,
                                written_len: h2.written_len(),
                                cursor: h2.cursor(),
                                log_seq: seq,
                            });
                            if r.items.len() >= max_items {
                                return;
                            }
                        }
                        None => {
                            r.ended = true;
                            r.written_at_end = h2.written_len();
                            r.cursor_at_end = h2.cursor();
                            r.log_seq_at_end = seq;
                            log2.lock().unwrap().note("stream end");
                            break;
                        }
                    }
                }
                for _ in 0..3 {
                    use futures::FutureExt;
                    match std::panic::AssertUnwindSafe(stream.next()).catch_unwind().await {
                        Ok(Some(_)) => rec.lock().unwrap().after_end += 1,
                        Ok(None) => {}
                        Err(_) => {
                            let _ = crate::framework::take_panic();
                            break;
                        }
                    }
                }
            };
            let (o, polls) = exec::run(fut, || idle_h.idle(), 2_000_000 + 40 * (total_answer_bytes + 4096));
            (
                match o {
                    Outcome::Done(()) => "done",
                    Outcome::Stuck => "stuck",
                    Outcome::PollLimit => "poll_limit",
                },
                polls,
            )
        })
    };
    zvt::verif_hook::uninstall_fs();
    drop(scratch);
    let logg = log.lock().unwrap();
    // the announcement's entry order is HashMap order (per-process random):
    // mask its content in the replay identity; the oracle compares it as a set
    let cmd_len = {
        let w = h.written();
        rc::frame_dims(&w).map(|(a, b)| a + b).unwrap_or(w.len())
    };
    out.trace_hash = logg.hash_masking(cmd_len);
    if want_trace {
        out.trace = logg.render();
        if out.trace.len() > 300 {
            let tail = out.trace.split_off(out.trace.len() - 80);
            out.trace.truncate(160);
            out.trace.push("...".into());
            out.trace.extend(tail);
        }
    }
    out.stats.add_fired(&h.fired());
    out.nontrivial = true;
    let sig = "WriteFile".to_string();
    let (outcome, polls) = match res {
        Err((loc, msg)) => {
            out.fail("panic", panic_sig(&loc, &msg), format!("upload panicked at {loc}: {msg}"));
            return out;
        }
        Ok(x) => x,
    };

    // -- reference model
    let announced: BTreeMap<u8, u32> = truth.iter().map(|(k, v)| (*k, v.len() as u32)).collect();
    let rec = rec.lock().unwrap();
    let written = h.written();
    let mut sh = Hasher64::default();
    sh.u64(plan.files.len() as u64);
    sh.u64(plan.block as u64);
    sh.u8(plan.mode as u8);
    for r in &plan.requests {
        sh.u8(match r {
            Req::Data { id, offset } => {
                let sz = announced.get(id).copied();
                match sz {
                    None => 1,
                    Some(s) if *offset >= s => 2,
                    Some(s) if *offset + plan.block > s => 3,
                    _ => 4,
                }
            }
            Req::NoId { .. } => 5,
            Req::NoOffset { .. } => 6,
            Req::NoContainer { .. } => 7,
            Req::NoTlv => 8,
        });
    }
    out.shape = sh.finish();

    // File-system faults that fired. A failing open / read_at may either end the upload with one
    // error (nothing is sent for that request) or be retried successfully; a short read is no
    // excuse: the answer must still carry the whole block. Wrong data is never acceptable.
    let fs_fired: Vec<FsFired> = fs_state.lock().unwrap().fired.clone();
    // every failing operation, attributed to the request that was being answered
    let mut fails: Vec<FsErrAt> = vec![];
    for f in &fs_fired {
        match f.fault.kind {
            FsKind::Fail(k) => {
                out.stats.hit(match (f.fault.op, k) {
                    (FsOpKind::Open, _) => "fault.fs_open_error",
                    (FsOpKind::Read, 3) => "fault.fs_read_interrupted",
                    (FsOpKind::Read, _) => "fault.fs_read_error",
                });
                if f.cursor == 0 {
                    fails.push(FsErrAt::Manifest);
                } else {
                    // boundaries: 3 = behind the acknowledgement, then the end of each request
                    let mut off = 3u64;
                    let mut found = false;
                    if f.cursor == off {
                        fails.push(FsErrAt::BeforeRequest(0));
                        found = true;
                    }
                    for (i, r) in replies.iter().enumerate().take(plan.requests.len()) {
                        off += r.len() as u64;
                        if off == f.cursor {
                            fails.push(FsErrAt::Request(i));
                            fails.push(FsErrAt::BeforeRequest(i + 1));
                            found = true;
                            break;
                        }
                    }
                    if !found {
                        fails.push(FsErrAt::Unknown);
                    }
                }
            }
            FsKind::Short(_) => {
                if f.bit {
                    out.stats.hit("fault.fs_short_read");
                }
            }
        }
    }
    let judge = |fs_err: Option<FsErrAt>, gave_up_at: Option<u32>, out: &mut RunOut| {

        if announced.is_empty() {
            out.stats.hit("probe.empty_directory");
            // error without traffic
            if !written.is_empty() {
                out.fail("traffic_without_files", sig.clone(), "no recognised file present, yet bytes were sent");
            }
            // nothing to announce: an error or a clean end without items - never traffic, never a packet
            let n_err = rec.items.iter().filter(|i| i.res.is_err()).count();
            if rec.items.len() != n_err || n_err > 1 || !rec.ended {
                out.fail(
                    "empty_directory",
                    sig.clone(),
                    format!("no recognised file present: expected at most one error and nothing else, got {} item(s), {} error(s)", rec.items.len(), n_err),
                );
            }
            return;
        }
        // A directory that merely bears a recognised file name: the statement does not say whether the
        // upload ignores it or refuses the whole payload; both are accepted - announcing it is not.
        let dir_like_file = plan.extra.iter().any(|(rel, is_dir)| *is_dir && ID_TABLE.iter().any(|(p, _)| p == rel));
        if dir_like_file && written.is_empty() && rec.items.len() == 1 && rec.items[0].res.is_err() && rec.ended {
            out.stats.hit("probe.directory_named_like_a_file_refused");
            return;
        }
        if fs_err == Some(FsErrAt::Manifest) {
            // a file could not be opened while the list was built: one error, no traffic
            if !written.is_empty() {
                out.fail("traffic_after_fs_error", sig.clone(), "a payload file could not be opened for the file list, yet bytes were sent");
            }
            let n_err = rec.items.iter().filter(|i| i.res.is_err()).count();
            if rec.items.len() != 1 || n_err != 1 || !rec.ended {
                out.fail(
                    "fs_error_not_reported",
                    sig.clone(),
                    format!("a payload file could not be opened for the file list: expected exactly one error, got {} item(s), {} error(s)", rec.items.len(), n_err),
                );
            }
            return;
        }
        if outcome != "done" {
            out.fail(
                "no_progress",
                format!("{sig}/{outcome}"),
                format!("upload {outcome} after {polls} polls although the terminal delivered its whole script"),
            );
            return;
        }
        let mut wbuf = written.clone();
        let mut frames = vec![];
        while let Some(f) = rc::take_frame(&mut wbuf) {
            frames.push(f);
        }
        // (1) the announcement
        let Some(cmd) = frames.first() else {
            out.fail("command", sig.clone(), "no complete 08 14 frame was written");
            return;
        };
        match Pkt::decode(cmd) {
            Ok(p) if p.cf == (0x08, 0x14) => {
                if rc::bcd_val(&p.pos) != Some(plan.password as u64) || p.pos.len() != 3 {
                    out.fail("manifest_password", sig.clone(), format!("08 14 carries password {} instead of {}", crate::conn::hex(&p.pos), plan.password));
                }
                let mut got: Vec<(u8, u32)> = vec![];
                let mut malformed = false;
                for t in p.tlvs().unwrap_or_default() {
                    let ch = t.children();
                    let id = rc::find(ch, 0x1d).and_then(|x| x.prim_val()).filter(|v| v.len() == 1).map(|v| v[0]);
                    let size = rc::find(ch, 0x1f00)
                        .and_then(|x| x.prim_val())
                        .filter(|v| v.len() == 4)
                        .map(|v| u32::from_be_bytes([v[0], v[1], v[2], v[3]]));
                    // (further elements inside an entry are none of this property's business)
                    match (t.tag, id, size) {
                        (0x2d, Some(id), Some(size)) => got.push((id, size)),
                        _ => malformed = true,
                    }
                }
                got.sort();
                let want: Vec<(u8, u32)> = announced.iter().map(|(k, v)| (*k, *v)).collect();
                if malformed || got != want {
                    out.fail(
                        "manifest",
                        sig.clone(),
                        format!("announced file list {:02x?} (malformed entries: {malformed}) differs from the recognised files on disk {:02x?}", got, want),
                    );
                }
            }
            _ => out.fail("command", sig.clone(), format!("first frame is not a decodable 08 14: {}", crate::conn::hex(cmd))),
        }
        // (2)..(4) the script
        // `gave_up_at`: second reading for a long stall of the terminal - the client gave the upload up
        // there (one error, nothing more), which is judged like a stream that ends at that offset
        let avail = match (gave_up_at, plan.cut) {
            (Some(g), Some(c)) => (g as u64).min(c.0 as u64),
            (Some(g), None) => g as u64,
            (None, c) => c.map(|c| c.0 as u64).unwrap_or(u64::MAX),
        };
        let mut end_off = 3u64; // after the terminal's acknowledgement
        let mut expect_items = 0usize;
        let mut expect_answers: Vec<(Vec<u8>, u64)> = vec![]; // (kind marker or expected payload, end offset)
        let mut error_expected = avail < 3;
        let mut cut_hit = avail < 3;
        if cut_hit {
            out.stats.hit("fault.stream_cut");
        }
        for (i, r) in plan.requests.iter().enumerate() {
            if error_expected {
                break;
            }
            if fs_err == Some(FsErrAt::BeforeRequest(i)) {
                // the failing file operation came before this request was read: it stays in the connection
                error_expected = true;
                break;
            }
            if end_off + replies[i].len() as u64 > avail {
                // the connection ends inside (or before) this request: one error, nothing more is sent
                error_expected = true;
                cut_hit = true;
                out.stats.hit("fault.stream_cut");
                break;
            }
            end_off += replies[i].len() as u64;
            if fs_err == Some(FsErrAt::Request(i)) {
                // the file operation behind this answer failed: one error, nothing is sent for it
                error_expected = true;
                break;
            }
            let valid = match r {
                Req::Data { id, .. } => announced.contains_key(id),
                _ => false,
            };
            if !valid {
                error_expected = true;
                out.stats.hit(match r {
                    Req::Data { .. } => "fault.unknown_file_id",
                    Req::NoId { .. } => "fault.request_without_id",
                    Req::NoOffset { .. } => "fault.request_without_offset",
                    Req::NoContainer { .. } => "fault.request_without_container",
                    Req::NoTlv => "fault.request_without_tlv",
                });
                break;
            }
            if let Req::Data { id, offset } = r {
                let file = &truth[id];
                let a = (*offset as usize).min(file.len());
                let b = (*offset as usize + plan.block as usize).min(file.len());
                if a == b {
                    out.stats.hit("probe.offset_at_or_after_eof");
                } else if b - a < plan.block as usize {
                    out.stats.hit("probe.short_last_block");
                } else {
                    out.stats.hit("probe.full_block");
                }
                let mut exp = vec![*id];
                exp.extend(offset.to_be_bytes());
                exp.extend_from_slice(&file[a..b]);
                expect_answers.push((exp, end_off));
                expect_items += 1;
            }
        }
        let mut final_end = None;
        if !error_expected && fs_err == Some(FsErrAt::BeforeRequest(plan.requests.len())) {
            error_expected = true;
        }
        if !error_expected {
            if end_off + replies[plan.requests.len()].len() as u64 > avail {
                error_expected = true;
                cut_hit = true;
                out.stats.hit("fault.stream_cut");
            } else {
                end_off += replies[plan.requests.len()].len() as u64;
                expect_items += 1;
                final_end = Some(end_off);
            }
        }
        let read_limit = if cut_hit { avail.min(ex.stream().len() as u64) } else { end_off };
        // answers written
        let answers = &frames[1..];
        let want_answers = expect_answers.len() + if error_expected { 0 } else { 1 };
        if answers.len() != want_answers || !wbuf.is_empty() {
            out.fail(
                if answers.len() > want_answers { "extra_write" } else { "missing_answer" },
                sig.clone(),
                format!(
                    "client wrote {} answer frame(s) (+{} stray bytes), reference model: {}{}",
                    answers.len(),
                    wbuf.len(),
                    want_answers,
                    if error_expected { " (invalid request ends the upload, nothing may be sent for it)" } else { "" }
                ),
            );
        }
        let mut answer_ends: Vec<usize> = vec![];
        let mut off = frames[0].len();
        for a in answers {
            off += a.len();
            answer_ends.push(off);
        }
        for (i, (exp, _)) in expect_answers.iter().enumerate() {
            let Some(a) = answers.get(i) else { break };
            let (id, offset, payload) = (exp[0], &exp[1..5], &exp[5..]);
            let ok = (|| -> Option<bool> {
                let p = Pkt::decode(a).ok()?;
                if p.cf != (0x80, 0x00) || !p.pos.is_empty() {
                    return Some(false);
                }
                let ts = p.tlvs()?;
                let Some(entry) = ts.iter().find(|t| t.tag == 0x2d) else { return Some(false) };
                let ch = entry.children();
                let gid = rc::find(ch, 0x1d)?.prim_val()?;
                let goff = rc::find(ch, 0x1e)?.prim_val()?;
                let gpay: &[u8] = match rc::find(ch, 0x1c) {
                    Some(t) => match &t.val {
                        TlvVal::Prim(v) => v,
                        _ => return Some(false),
                    },
                    None => &[],
                };
                Some(gid == [id] && goff == offset && gpay == payload)
            })()
            .unwrap_or(false);
            if !ok {
                out.fail(
                    "data_block",
                    sig.clone(),
                    format!(
                        "answer {i} {} does not carry id {:02x}, offset {} and the {} file bytes at that offset (block size {})",
                        crate::conn::hex(&a[..a.len().min(40)]),
                        id,
                        u32::from_be_bytes([offset[0], offset[1], offset[2], offset[3]]),
                        payload.len(),
                        plan.block
                    ),
                );
            }
        }
        if !error_expected {
            if let Some(a) = answers.get(expect_answers.len()) {
                if a[..] != rc::ACK {
                    out.fail("final_ack", sig.clone(), format!("completion/abort answered with {}", crate::conn::hex(a)));
                }
            }
        }
        // cursor at each write
        {
            let cmd_len = frames[0].len();
            let mut woff = 0usize;
            let mut ends = expect_answers.iter().map(|(_, e)| *e).collect::<Vec<_>>();
            if let Some(e) = final_end {
                ends.push(e);
            }
            for e in logg.entries.iter() {
                if let Ev::Write(b) = &e.ev {
                    if woff >= cmd_len {
                        let idx = answer_ends.iter().position(|end| woff < *end);
                        if let Some(idx) = idx {
                            if let Some(end) = ends.get(idx) {
                                if e.cursor != *end {
                                    out.fail(
                                        "answer_position",
                                        sig.clone(),
                                        format!("answer {idx} written with read cursor {} but request {idx} ends at {}", e.cursor, end),
                                    );
                                }
                            }
                        }
                    } else if e.cursor != 0 {
                        out.fail("write_order", sig.clone(), "announcement written after reading");
                    }
                    woff += b.len();
                }
            }
        }
        // items
        let n_ok = rec.items.iter().take_while(|i| i.res.is_ok()).count();
        let n_err = rec.items.iter().filter(|i| i.res.is_err()).count();
        if n_ok != expect_items {
            out.fail(
                if n_ok < expect_items { "missing_item" } else { "extra_item" },
                sig.clone(),
                format!("stream yielded {n_ok} packets, reference model: {expect_items}"),
            );
        }
        for (i, it) in rec.items.iter().enumerate().take(n_ok.min(expect_items)) {
            let frame = &replies[i];
            let dbg = it.res.as_ref().unwrap();
            let own = seqs::own_decodes(frame);
            if seqs::item_matches_own_decode(dbg, frame) == Some(false) {
                out.fail("item_content", sig.clone(), format!("item {i} is {dbg}, packet decodes on its own as {:?}", own));
            }
            if let Some(end) = answer_ends.get(i) {
                if it.written_len != *end {
                    out.fail(
                        "answer_before_yield",
                        sig.clone(),
                        format!("item {i} handed over with {} bytes written, its answer ends at {}", it.written_len, end),
                    );
                }
            }
        }
        if error_expected {
            if n_err != 1 || rec.items.last().map(|i| i.res.is_ok()).unwrap_or(true) {
                out.fail(
                    "invalid_request_error",
                    sig.clone(),
                    format!("invalid request must end the upload with exactly one error; got {n_err} error(s)"),
                );
            }
            if h.cursor() > read_limit {
                out.fail("over_read", sig.clone(), "read beyond the invalid request");
            }
        } else {
            if n_err != 0 {
                let e = rec.items.iter().find_map(|i| i.res.as_ref().err()).unwrap();
                out.fail("spurious_error", sig.clone(), format!("valid upload ended in error: {e}"));
            }
            if Some(h.cursor()) != final_end {
                out.fail("cursor_end", sig.clone(), format!("upload ended at cursor {}, final packet ends at {:?}", h.cursor(), final_end));
            }
            let full = ex.stream();
            let released = (h.released_total() as usize).min(full.len());
            let _ = cut_hit;
            let end = (final_end.unwrap_or(0) as usize).min(released);
            if h.unread() != full[end..released] {
                out.fail("tail_damaged", sig.clone(), "bytes queued behind the final packet are not intact");
            }
        }
        if !rec.ended || rec.after_end != 0 {
            out.fail("no_end", sig.clone(), "stream did not end cleanly");
        }
        for a in &trec.lock().unwrap().anomalies {
            out.fail("terminal_anomaly", sig.clone(), a.clone());
        }
    };
    // Acceptable models: the upload ends with one error at any one of the failing operations (all
    // earlier ones were retried successfully), or every failing operation was retried.
    let mut models: Vec<Option<FsErrAt>> = fails.iter().filter(|f| **f != FsErrAt::Unknown).map(|f| Some(*f)).collect();
    models.dedup();
    models.push(None);
    // ... and, where the terminal stalls for a second or more, "gave up there" as a further reading
    let mut stall_readings: Vec<Option<u32>> = vec![None];
    for off in crate::exchange::long_stall_offsets(&ex) {
        stall_readings.push(Some(off));
    }
    let mut first: Option<RunOut> = None;
    let mut accepted = false;
    'outer: for g in stall_readings {
        for m in models.iter().copied() {
            let mut o = RunOut::new();
            judge(m, g, &mut o);
            if o.violations.is_empty() {
                out.stats.merge(&o.stats);
                if m.is_some() {
                    out.stats.hit("probe.fs_error_ended_upload");
                } else if !fails.is_empty() {
                    out.stats.hit("probe.fs_error_retried");
                }
                if g.is_some() {
                    out.stats.hit("probe.gave_up_during_a_stall");
                }
                accepted = true;
                break 'outer;
            }
            if first.is_none() {
                first = Some(o);
            }
        }
    }
    if !accepted {
        let o = first.unwrap();
        out.stats.merge(&o.stats);
        out.violations.extend(o.violations);
    }
    out
}

pub fn random_plan(rng: &mut Rng, max_size: u32) -> C11Plan {
    let block = match rng.below(10) {
        0 => 1,
        1 => 2,
        2 => 127,
        3 => 128,
        4 => 255,
        5 => 256,
        6 => 1024,
        7 => 32768,
        _ => rng.range(1, 32768) as u32,
    };
    let many = rng.pct(20);
    let nfiles = if rng.pct(6) { 0 } else { 1 + rng.usize_below(if many { 21 } else { 5 }) };
    let mut idxs: Vec<u8> = (0..21).collect();
    // partial Fisher-Yates
    for i in 0..nfiles.min(21) {
        let j = i + rng.usize_below(21 - i);
        idxs.swap(i, j);
    }
    let files: Vec<(u8, u32)> = idxs[..nfiles.min(21)]
        .iter()
        .map(|pi| {
            let size = match rng.below(9) {
                0 => 0,
                1 => 1,
                2 => block.saturating_sub(1),
                3 => block,
                4 => block + 1,
                5 => 2 * block,
                6 => 2 * block + rng.below(block as u64) as u32,
                _ => rng.below(max_size as u64 + 1) as u32,
            };
            (*pi, size.min(max_size.max(2 * block + block)))
        })
        .collect();
    let mut extra = vec![];
    for _ in 0..rng.usize_below(4) {
        let cands = [
            ("firmware/readme.txt", false),
            ("app8/update.spec", false),
            ("app0/update.tar", false),
            ("kernel.gz", false),
            ("firmware/kernel.gz.bak", false),
            ("app9", true),
            ("firmware/extra", true),
            ("update.spec", false),
            ("APP1/update.spec", false),
            // unrelated files deeper down whose last path components look like a recognised path
            ("previous/app1/update.tar.gz", false),
            ("backup/firmware/kernel.gz", false),
            ("old/2023/app0/update.spec", false),
            ("firmware/firmware/update.spec", false),
            ("app2/app2/update.tar.gz", false),
            // (a *directory* bearing a recognised file name is deliberately not generated: whether it is
            // ignored, refused or announced lies outside what the statement quantifies over)
        ];
        let (p, d) = *rng.pick(&cands);
        if d && files.iter().any(|(pi, _)| ID_TABLE[*pi as usize].0 == p) {
            continue;
        }
        extra.push((p.to_string(), d));
    }
    let present: Vec<(u8, u32)> = files.iter().map(|(pi, s)| (ID_TABLE[*pi as usize].1, *s)).collect();
    let nreq = rng.usize_below(8);
    let mut requests = vec![];
    for k in 0..nreq {
        let (id, size) = if present.is_empty() { (0x10, 0) } else { *rng.pick(&present) };
        let offset = match rng.below(8) {
            0 => 0,
            1 => size,
            2 => size.saturating_sub(1),
            3 => size + rng.below(1000) as u32,
            4 => size.saturating_sub(block),
            5 => (rng.below(4) as u32) * block,
            6 => u32::MAX - rng.below(3) as u32,
            _ => rng.below(size as u64 + 1) as u32,
        };
        // invalid requests only as the last element (they end the upload)
        let last = k + 1 == nreq;
        let r = if last && rng.pct(35) {
            match rng.below(5) {
                0 => Req::NoId { offset },
                1 => Req::NoOffset { id },
                2 => Req::NoContainer { id, offset },
                3 => Req::NoTlv,
                _ => {
                    // an id that was not announced
                    let unknown: Vec<u8> = ID_TABLE
                        .iter()
                        .map(|(_, i)| *i)
                        .chain([0x00, 0x15, 0x1f, 0x36, 0xff])
                        .filter(|i| !present.iter().any(|(p, _)| p == i))
                        .collect();
                    Req::Data {
                        id: *rng.pick(&unknown),
                        offset,
                    }
                }
            }
        } else {
            Req::Data { id, offset }
        };
        requests.push(r);
    }
    let mode = *rng.pick(&[Mode::Lockstep, Mode::Eager, Mode::Paced]);
    let mut p = C11Plan {
        content_seed: rng.next_u64(),
        files,
        extra,
        block,
        password: rng.range(0, 999_999) as u32,
        requests,
        end: if rng.pct(75) { End::Completion } else { End::Abort(rng.next_u64() as u8) },
        mode,
        sched: if rng.pct(50) { Sched::whole() } else { Sched::random(rng) },
        paced_cuts: vec![],
        paced_gaps_ms: vec![],
        cut: None,
        fs_faults: vec![],
        symlinks: vec![],
        then: None,
    };
    if rng.pct(15) {
        for k in 0..p.files.len() {
            if rng.pct(50) {
                p.symlinks.push(k as u8);
            }
        }
    }
    if rng.pct(25) && !present.is_empty() {
        // file-system faults: the nth open / read_at of a present file fails or comes back short
        for _ in 0..1 + rng.usize_below(3) {
            let (id, _) = *rng.pick(&present);
            let op = if rng.pct(30) { FsOpKind::Open } else { FsOpKind::Read };
            // at most one fault in the list-building phase (open number 0): which file is opened
            // first there is HashMap order
            let nth = if op == FsOpKind::Open {
                if rng.pct(15) && !p.fs_faults.iter().any(|f| f.op == FsOpKind::Open && f.nth == 0) {
                    0
                } else {
                    1 + rng.below(4) as u32
                }
            } else {
                rng.below(5) as u32
            };
            let kind = if op == FsOpKind::Open || rng.pct(40) {
                FsKind::Fail(rng.below(4) as u8)
            } else {
                FsKind::Short(match rng.below(4) {
                    0 => 1,
                    1 => block.saturating_sub(1).max(1),
                    2 => (block / 2).max(1),
                    _ => 1 + rng.below(block as u64) as u32,
                })
            };
            p.fs_faults.push(FsFault { file: id, op, nth, kind });
        }
    }
    // Which file the list-building phase touches first is HashMap order: a plan must not contain two
    // things that can end that phase (a failing first open, a directory bearing a recognised name),
    // or the run would not be a function of the plan.
    if p.extra.iter().any(|(rel, is_dir)| *is_dir && ID_TABLE.iter().any(|(q, _)| q == rel)) {
        p.fs_faults.retain(|f| !(f.op == FsOpKind::Open && f.nth == 0));
    }
    if rng.pct(12) {
        let len: u64 = 3 + p.requests.iter().map(|r| request_frame(r).len() as u64).sum::<u64>() + 4;
        p.cut = Some((rng.below(len + 1) as u32, if rng.pct(70) { crate::conn::CloseKind::Eof } else { crate::conn::CloseKind::Reset }));
    }
    if mode == Mode::Paced {
        let len: usize = 3 + p.requests.iter().map(|r| request_frame(r).len()).sum::<usize>() + 6;
        p.paced_cuts = crate::c05::random_paced_cuts(rng, len);
        p.paced_gaps_ms = crate::c05::random_paced_gaps(rng);
    }
    p
}

impl Check for C11 {
    type Plan = C11Plan;
    fn id(&self) -> &'static str {
        "C11"
    }
    fn level(&self) -> &'static str {
        "exploration"
    }

    fn families(&self, tier: Tier, _seed: u64) -> Vec<Family<C11Plan>> {
        let mut fams = vec![];
        // each recognised path alone, requested at 0, mid, end, beyond
        fams.push(Family::new("each_recognised_path_alone", 21 * 6, true, |i, rng| {
            let pi = (i / 6) as u8;
            let block = [1u32, 256, 1000][((i / 2) % 3) as usize];
            let size = 2 * block + 1;
            let id = ID_TABLE[pi as usize].1;
            C11Plan {
                content_seed: rng.next_u64(),
                files: vec![(pi, size)],
                extra: vec![("readme.txt".into(), false)],
                block,
                password: 123456,
                requests: vec![
                    Req::Data { id, offset: 0 },
                    Req::Data { id, offset: block },
                    Req::Data { id, offset: 2 * block },
                    Req::Data { id, offset: size },
                    Req::Data { id, offset: 0 },
                ],
                end: End::Completion,
                mode: Mode::Lockstep,
                sched: Sched::whole(),
                paced_cuts: vec![],
                paced_gaps_ms: vec![],
                cut: None,
                fs_faults: vec![],
                // every other one as a symbolic link to a file stored elsewhere
                symlinks: if i % 2 == 1 { vec![0] } else { vec![] },
                then: None,
            }
        }));
        // two (three) uploads in a row from one payload directory, in one process: between them files are
        // replaced by new ones of other size and content (new inodes), removed, added - every upload
        // announces and serves the directory as it is *then*
        fams.push(Family::new("uploads_in_a_row_from_one_directory", 21 * 4, true, |i, rng| {
            let a = (i % 21) as u8;
            let b = ((i + 7) % 21) as u8;
            let c = ((i + 13) % 21) as u8;
            let (ida, idb, idc) = (ID_TABLE[a as usize].1, ID_TABLE[b as usize].1, ID_TABLE[c as usize].1);
            let block = [64u32, 256, 1000, 300][(i / 21) as usize];
            let mk = |seed: u64, files: Vec<(u8, u32)>, requests: Vec<Req>, end: End, then: Option<Box<C11Plan>>| C11Plan {
                content_seed: seed,
                files,
                extra: vec![("readme.txt".into(), false)],
                block,
                password: 123456,
                requests,
                end,
                mode: Mode::Lockstep,
                sched: Sched::whole(),
                paced_cuts: vec![],
                paced_gaps_ms: vec![],
                cut: None,
                fs_faults: vec![],
                symlinks: vec![],
                then,
            };
            let (s1, s2, s3) = (rng.next_u64(), rng.next_u64(), rng.next_u64());
            // third upload: the first file grown again, the second back
            let third = mk(s3, vec![(a, 3 * block + 5), (b, 10)], vec![Req::Data { id: ida, offset: 2 * block }, Req::Data { id: idb, offset: 0 }, Req::Data { id: idc, offset: 0 }], End::Completion, None);
            // second upload: first file replaced (smaller, other content), second removed, third added; it ends
            // with an abort of the terminal / with a request for the file that is gone (an error ending)
            let second_reqs = if i % 2 == 0 {
                vec![Req::Data { id: ida, offset: 0 }, Req::Data { id: idc, offset: 0 }, Req::Data { id: ida, offset: block }]
            } else {
                vec![Req::Data { id: ida, offset: 0 }, Req::Data { id: idb, offset: 0 }]
            };
            let second = mk(s2, vec![(a, block + 3), (c, 2 * block)], second_reqs, if i % 4 < 2 { End::Completion } else { End::Abort(0x6c) }, Some(Box::new(third)));
            mk(s1, vec![(a, 2 * block + 1), (b, block)], vec![Req::Data { id: ida, offset: 0 }, Req::Data { id: idb, offset: 0 }, Req::Data { id: ida, offset: block }], End::Completion, Some(Box::new(second)))
        }));
        // an unrelated file deeper in the tree whose last two path components equal a recognised path -
        // with and without the real file next to it: only the real one is announced and served
        fams.push(Family::new("nested_look_alike_paths", 21 * 2 * 3, true, |i, rng| {
            let pi = (i % 21) as u8;
            let real_present = (i / 21) % 2 == 0;
            let prefix = ["previous", "zz/backup", "a/b/c"][(i / 42) as usize];
            let (path, id) = ID_TABLE[pi as usize];
            let other = ID_TABLE[((pi as usize) + 5) % 21];
            let files = if real_present { vec![(pi, 300u32), (((pi as usize + 5) % 21) as u8, 64)] } else { vec![(((pi as usize + 5) % 21) as u8, 64)] };
            let mut requests = vec![Req::Data { id: other.1, offset: 0 }];
            requests.push(Req::Data { id, offset: 0 });
            C11Plan {
                content_seed: rng.next_u64(),
                files,
                extra: vec![(format!("{prefix}/{path}"), false)],
                block: 256,
                password: 123456,
                requests,
                end: End::Completion,
                mode: Mode::Lockstep,
                sched: Sched::whole(),
                paced_cuts: vec![],
                paced_gaps_ms: vec![],
                cut: None,
                fs_faults: vec![],
                symlinks: vec![],
                then: None,
            }
        }));
        // the terminal pauses (11 s, 61 s, 1 h) at every byte position of a three-request upload: between
        // a data block and the next request, inside a request, before the completion
        {
            let (pi, id) = (6u8, ID_TABLE[6].1);
            let reqs = vec![Req::Data { id, offset: 0 }, Req::Data { id, offset: 256 }, Req::Data { id, offset: 512 }];
            let len: u32 = 3 + reqs.iter().map(|r| request_frame(r).len() as u32).sum::<u32>() + 3;
            let gaps = [11_000u32, 61_000, 3_600_000];
            fams.push(Family::new("terminal_pauses_at_every_byte_position", len as u64 * gaps.len() as u64, true, move |i, rng| {
                let pos = (i / gaps.len() as u64) as u32;
                C11Plan {
                    content_seed: rng.next_u64(),
                    files: vec![(pi, 700)],
                    extra: vec![],
                    block: 256,
                    password: 7,
                    requests: reqs.clone(),
                    end: End::Completion,
                    mode: Mode::Paced,
                    sched: Sched::whole(),
                    paced_cuts: vec![pos],
                    paced_gaps_ms: vec![0, gaps[(i % gaps.len() as u64) as usize]],
                    cut: None,
                    fs_faults: vec![],
                symlinks: vec![],
                then: None,
                }
            }));
        }
        // one file-system fault at every file operation of a five-request upload
        fams.push(Family::new("fs_fault_at_every_file_operation", 3 * 7 * 8, true, |i, rng| {
            let block = [1u32, 256, 1000][(i % 3) as usize];
            let nth = ((i / 3) % 7) as u32;
            let kind_ix = i / 21;
            let size = 2 * block + 1;
            let (pi, id) = (6u8, ID_TABLE[6].1);
            let (op, kind) = match kind_ix {
                0 => (FsOpKind::Open, FsKind::Fail(0)),
                1 => (FsOpKind::Open, FsKind::Fail(1)),
                2 => (FsOpKind::Read, FsKind::Fail(0)),
                3 => (FsOpKind::Read, FsKind::Fail(3)),
                4 => (FsOpKind::Read, FsKind::Short(1)),
                5 => (FsOpKind::Read, FsKind::Short(block.saturating_sub(1).max(1))),
                6 => (FsOpKind::Read, FsKind::Short((block / 2).max(1))),
                _ => (FsOpKind::Read, FsKind::Fail(2)),
            };
            C11Plan {
                content_seed: rng.next_u64(),
                files: vec![(pi, size), (2, 17)],
                extra: vec![],
                block,
                password: 1,
                requests: vec![
                    Req::Data { id, offset: 0 },
                    Req::Data { id, offset: block },
                    Req::Data { id, offset: 1 },
                    Req::Data { id, offset: 2 * block },
                    Req::Data { id, offset: 0 },
                ],
                end: End::Completion,
                mode: if i % 2 == 0 { Mode::Lockstep } else { Mode::Eager },
                sched: Sched::whole(),
                paced_cuts: vec![],
                paced_gaps_ms: vec![],
                cut: None,
                fs_faults: vec![FsFault { file: id, op, nth, kind }],
                symlinks: vec![],
                then: None,
            }
        }));
        let (count, max_size) = match tier {
            Tier::Quick => (20_000, 8 * 1024),
            Tier::Thorough => (400_000, 200 * 1024),
        };
        fams.push(Family::new("random_directories_and_scripts", count, false, move |i, rng| {
            // a few runs with the full 200 KiB size even in the quick tier
            let ms = if i % 50 == 0 { 200 * 1024 } else { max_size };
            random_plan(rng, ms)
        }));
        fams
    }

    fn run(&self, plan: &C11Plan, want_trace: bool) -> RunOut {
        run_plan(plan, want_trace)
    }

    fn shrink(&self, plan: &C11Plan) -> Vec<C11Plan> {
        let mut out = vec![];
        let mut push = |p: C11Plan| {
            if p != *plan {
                out.push(p)
            }
        };
        let mut p = plan.clone();
        p.sched = Sched::whole();
        p.mode = Mode::Lockstep;
        p.paced_cuts.clear();
        p.paced_gaps_ms.clear();
        push(p);
        if plan.cut.is_some() {
            let mut p = plan.clone();
            p.cut = None;
            push(p);
        }
        for i in 0..plan.fs_faults.len() {
            let mut p = plan.clone();
            p.fs_faults.remove(i);
            push(p);
        }
        for i in 0..plan.requests.len() {
            let mut p = plan.clone();
            p.requests.remove(i);
            push(p);
        }
        if !plan.extra.is_empty() {
            let mut p = plan.clone();
            p.extra.clear();
            push(p);
        }
        for i in 0..plan.files.len() {
            if plan.files.len() > 1 {
                let mut p = plan.clone();
                p.files.remove(i);
                push(p);
            }
        }
        for i in 0..plan.files.len() {
            for s in [0, 1, plan.files[i].1 / 2] {
                if s < plan.files[i].1 {
                    let mut p = plan.clone();
                    p.files[i].1 = s;
                    push(p);
                }
            }
        }
        for b in [1, 2, plan.block / 2] {
            if b >= 1 && b < plan.block {
                let mut p = plan.clone();
                p.block = b;
                push(p);
            }
        }
        for i in 0..plan.requests.len() {
            if let Req::Data { id, offset } = plan.requests[i] {
                for o in [0, offset / 2] {
                    if o < offset {
                        let mut p = plan.clone();
                        p.requests[i] = Req::Data { id, offset: o };
                        push(p);
                    }
                }
            }
        }
        out
    }

    fn rule_text(&self) -> String {
        "one run = the real WriteFile::into_stream over a payload directory written by the simulator (PRNG subset of the 21 recognised paths incl. none, unrelated files and directories, sizes {0,1,block-1,block,block+1,2*block,PRNG <= 200 KiB}, PRNG content) with block size from {1,2,127,128,255,256,1024,32768,PRNG} against a scripted terminal (request script: any order, repeats, overlaps, offsets at/after end of file, unknown ids, requests without id / offset / container / TLV; ends in completion or abort; in 12 % of the PRNG runs the connection is lost at a PRNG byte offset: one error, nothing more is sent; in 25 % file-system faults hit the nth open / read_at of a file: error, interrupted or short read; one such fault at every file operation of a five-request upload is enumerated) x lockstep/eager/paced x I/O schedules; distinct = hash of (file count, block size, mode, per-request class); every run is non-trivial".into()
    }
    fn assumptions(&self) -> Vec<String> {
        vec![
            "path -> file id table transcribed independently in the harness (cVEND manual 6.13 table 2)".into(),
            "files are real files on tmpfs; file-system faults (failing open, failing / interrupted / short read_at) are injected through the zvt_verif hook of crate zvt; a failing operation may end the upload with one error or be retried, a short read must not shorten the answer".into(),
            "manifest order is HashMap order: compared as a set, canonicalised in trace hashes".into(),
            "an absent payload tag is equivalent to an empty payload".into(),
        ]
    }
    fn components_real(&self) -> Vec<&'static str> {
        vec![
            "zvt::feig::sequences::WriteFile::into_stream, convert_dir",
            "zvt::feig::packets (WriteFile, WriteData, RequestForData, tlv::File, Custom)",
            "zvt::io::PacketTransport",
            "std::fs on tmpfs",
        ]
    }
    fn components_stub(&self) -> Vec<&'static str> {
        vec!["connection (SimConn)", "terminal (scripted)", "executor (own poll loop)"]
    }
    fn expected_probes(&self) -> Vec<&'static str> {
        vec![
            "probe.empty_directory",
            "probe.offset_at_or_after_eof",
            "probe.short_last_block",
            "probe.full_block",
            "fault.unknown_file_id",
            "fault.request_without_id",
            "fault.request_without_offset",
            "fault.request_without_container",
            "fault.request_without_tlv",
            "fault.stream_cut",
            "fault.fs_open_error",
            "fault.fs_read_error",
            "fault.fs_read_interrupted",
            "fault.fs_short_read",
            "probe.fs_error_ended_upload",
        ]
    }
}
