//! zvt-sim: deterministic simulation with fault injection for davisriedel/zvt.
mod alloc_count;
mod c02;
mod c04;
mod c05;
mod c06;
mod c09;
mod c10;
mod c11;
mod c15;
mod cchecks;
mod client;
mod model;
mod pt;
mod conn;
mod exchange;
mod exec;
mod framework;
mod refcodec;
mod rng;
mod seqs;
mod via_client;

use framework::{drive, replay, Tier};

#[global_allocator]
static ALLOC: alloc_count::Counting = alloc_count::Counting;

fn usage() -> ! {
    eprintln!("usage: zvt-sim check <ID> [--tier quick|thorough] | replay <file> | selftest <what>");
    std::process::exit(2);
}

fn repo_dir() -> String {
    std::env::var("VERIF_REPO").unwrap_or_else(|_| "/repo".to_string())
}

fn main() {
    let args: Vec<String> = std::env::args().collect();
    if args.len() < 2 {
        usage();
    }
    framework::install_panic_hook();
    framework::install_logger();
    if let Err(e) = refcodec::self_test(&format!("{}/zvt/data", repo_dir())) {
        eprintln!("HARNESS ERROR: {e}");
        std::process::exit(2);
    }
    match args[1].as_str() {
        "check" => {
            let id = args.get(2).cloned().unwrap_or_else(|| usage());
            let mut tier = match std::env::var("VERIF_TIER").as_deref() {
                Ok("thorough") => Tier::Thorough,
                _ => Tier::Quick,
            };
            let mut i = 3;
            while i < args.len() {
                if args[i] == "--tier" {
                    tier = match args.get(i + 1).map(|s| s.as_str()) {
                        Some("quick") => Tier::Quick,
                        Some("thorough") => Tier::Thorough,
                        _ => usage(),
                    };
                    i += 1;
                }
                i += 1;
            }
            // a panic of the harness itself (outside the guarded runs) is a harness error, never an alarm
            let code = std::panic::catch_unwind(std::panic::AssertUnwindSafe(|| match id.as_str() {
                "C02" => drive(&c02::C02, tier),
                "C04" => {
                    framework::silence_library_stdout();
                    drive(&via_client::ViaClient { inner: c04::C04 }, tier)
                }
                "C05" => {
                    framework::silence_library_stdout();
                    drive(&via_client::ViaClient { inner: c05::C05 }, tier)
                }
                "C06" => drive(&via_client::ViaClient { inner: c06::C06 }, tier),
                "C07" | "C08" | "C18" | "C19" | "C20" => {
                    let id: &'static str = Box::leak(id.clone().into_boxed_str());
                    drive(&cchecks::ClientCheck { id }, tier)
                }
                "C09" => drive(&c09::C09, tier),
                "C10" => drive(&c10::C10, tier),
                "C11" => {
                    framework::silence_library_stdout();
                    drive(&c11::C11, tier)
                }
                "C15" => drive(&via_client::ViaClient { inner: c15::C15 }, tier),
                _ => {
                    eprintln!("unknown or not-applicable property {id}");
                    2
                }
            }))
            .unwrap_or_else(|_| {
                let (loc, msg) = framework::take_panic().unwrap_or_default();
                eprintln!("HARNESS ERROR: panic in the harness at {loc}: {msg}");
                2
            });
            std::process::exit(code);
        }
        "replay" => {
            let path = args.get(2).cloned().unwrap_or_else(|| usage());
            let s = std::fs::read_to_string(&path).unwrap_or_else(|e| {
                eprintln!("HARNESS ERROR: {path}: {e}");
                std::process::exit(2)
            });
            let doc: serde_json::Value = serde_json::from_str(&s).unwrap_or_else(|e| {
                eprintln!("HARNESS ERROR: {path}: {e}");
                std::process::exit(2)
            });
            let code = match doc["property"].as_str().unwrap_or("") {
                "C02" => replay(&c02::C02, &doc),
                "C04" => {
                    framework::silence_library_stdout();
                    replay(&via_client::ViaClient { inner: c04::C04 }, &doc)
                }
                "C05" => {
                    framework::silence_library_stdout();
                    replay(&via_client::ViaClient { inner: c05::C05 }, &doc)
                }
                "C06" => replay(&via_client::ViaClient { inner: c06::C06 }, &doc),
                id @ ("C07" | "C08" | "C18" | "C19" | "C20") => {
                    let id: &'static str = Box::leak(id.to_string().into_boxed_str());
                    replay(&cchecks::ClientCheck { id }, &doc)
                }
                "C09" => replay(&c09::C09, &doc),
                "C10" => replay(&c10::C10, &doc),
                "C11" => {
                    framework::silence_library_stdout();
                    replay(&c11::C11, &doc)
                }
                "C15" => replay(&via_client::ViaClient { inner: c15::C15 }, &doc),
                other => {
                    eprintln!("unknown property in replay file: {other}");
                    2
                }
            };
            std::process::exit(code);
        }
        _ => usage(),
    }
}
