//! Own PRNG (xoshiro256** seeded through splitmix64): no dependency whose
//! stream could change under us. Every random choice of a run comes from here.

#[derive(Clone, Debug)]
pub struct Rng {
    s: [u64; 4],
}

pub fn splitmix(x: &mut u64) -> u64 {
    *x = x.wrapping_add(0x9E37_79B9_7F4A_7C15);
    let mut z = *x;
    z = (z ^ (z >> 30)).wrapping_mul(0xBF58_476D_1CE4_E5B9);
    z = (z ^ (z >> 27)).wrapping_mul(0x94D0_49BB_1331_11EB);
    z ^ (z >> 31)
}

/// Mixes several integers into one seed (base seed, check id, family, index).
pub fn mix(parts: &[u64]) -> u64 {
    let mut acc = 0x243F_6A88_85A3_08D3u64;
    for p in parts {
        let mut x = acc ^ p.wrapping_mul(0x9E37_79B9_7F4A_7C15);
        acc = splitmix(&mut x);
    }
    acc
}

pub fn str_id(s: &str) -> u64 {
    let mut h = 0xcbf2_9ce4_8422_2325u64;
    for b in s.bytes() {
        h ^= b as u64;
        h = h.wrapping_mul(0x0100_0000_01b3);
    }
    h
}

impl Rng {
    pub fn new(seed: u64) -> Self {
        let mut x = seed;
        let s = [
            splitmix(&mut x),
            splitmix(&mut x),
            splitmix(&mut x),
            splitmix(&mut x),
        ];
        Rng { s }
    }

    pub fn next_u64(&mut self) -> u64 {
        let r = self.s[1].wrapping_mul(5).rotate_left(7).wrapping_mul(9);
        let t = self.s[1] << 17;
        self.s[2] ^= self.s[0];
        self.s[3] ^= self.s[1];
        self.s[1] ^= self.s[2];
        self.s[0] ^= self.s[3];
        self.s[2] ^= t;
        self.s[3] = self.s[3].rotate_left(45);
        r
    }

    /// Uniform in 0..n (n > 0).
    pub fn below(&mut self, n: u64) -> u64 {
        debug_assert!(n > 0);
        ((self.next_u64() as u128 * n as u128) >> 64) as u64
    }

    /// Uniform in lo..=hi.
    pub fn range(&mut self, lo: u64, hi: u64) -> u64 {
        lo + self.below(hi - lo + 1)
    }

    pub fn usize_below(&mut self, n: usize) -> usize {
        self.below(n as u64) as usize
    }

    /// True with probability pct/100.
    pub fn pct(&mut self, pct: u32) -> bool {
        pct > 0 && self.below(100) < pct as u64
    }

    pub fn pick<'a, T>(&mut self, xs: &'a [T]) -> &'a T {
        &xs[self.usize_below(xs.len())]
    }

    pub fn bytes(&mut self, n: usize) -> Vec<u8> {
        (0..n).map(|_| self.next_u64() as u8).collect()
    }
}

/// FNV-1a style rolling hash for traces.
#[derive(Clone, Copy)]
pub struct Hasher64(pub u64);

impl Default for Hasher64 {
    fn default() -> Self {
        Hasher64(0xcbf2_9ce4_8422_2325)
    }
}

impl Hasher64 {
    pub fn u8(&mut self, b: u8) {
        self.0 ^= b as u64;
        self.0 = self.0.wrapping_mul(0x0100_0000_01b3);
    }
    pub fn u64(&mut self, v: u64) {
        for b in v.to_le_bytes() {
            self.u8(b);
        }
    }
    pub fn bytes(&mut self, bs: &[u8]) {
        self.u64(bs.len() as u64);
        for b in bs {
            self.u8(*b);
        }
    }
    pub fn str(&mut self, s: &str) {
        self.bytes(s.as_bytes());
    }
    pub fn finish(&self) -> u64 {
        let mut x = self.0;
        splitmix(&mut x)
    }
}
