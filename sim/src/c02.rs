//! C02 — decoding is total, claimed as a fault property: whatever a faulty
//! peer or a corrupted stream delivers, the receiving side returns a value
//! or an error — no panic, no arithmetic overflow, no unbounded loop or
//! allocation. Every decoder of every shipped packet type sits on the
//! receiving end of a simulated wire (ECR role: the reply enums; PT role:
//! harness-declared ZvtEnum enums listing every shipped command type).
use crate::alloc_count;
use crate::conn::{sim_conn, CloseKind, Log, Sched, SharedLog, TermIo, Terminal};
use crate::exchange::hexser;
use crate::exec::{self, Outcome};
use crate::framework::{guarded, Check, Family, RunOut, Tier};
use crate::refcodec::{self as rc, Pkt, Tlv};
use crate::rng::{Hasher64, Rng};
use serde::{Deserialize, Serialize};
use std::sync::{Arc, Mutex};
use zvt::io::PacketTransport;
use zvt::{feig, packets, sequences, ZvtEnum, ZvtParser};

pub struct C02;

// PT role: every shipped command type on the receiving end. Types sharing a
// control field sit in different enums.
#[derive(ZvtEnum, Debug)]
#[allow(clippy::large_enum_variant, dead_code)]
pub enum AnyA {
    SetTimeAndDate(packets::SetTimeAndDate),
    StatusInformation(packets::StatusInformation),
    IntermediateStatusInformation(packets::IntermediateStatusInformation),
    StatusEnquiry(packets::StatusEnquiry),
    Registration(packets::Registration),
    CompletionData(packets::CompletionData),
    ResetTerminal(packets::ResetTerminal),
    PrintSystemConfiguration(packets::PrintSystemConfiguration),
    SetTerminalId(packets::SetTerminalId),
    Abort(packets::Abort),
    Authorization(packets::Authorization),
    Reservation(packets::Reservation),
    PartialReversal(packets::PartialReversal),
    PreAuthReversal(packets::PreAuthReversal),
    EndOfDay(packets::EndOfDay),
    Diagnosis(packets::Diagnosis),
    Initialization(packets::Initialization),
    ReadCard(packets::ReadCard),
    PrintLine(packets::PrintLine),
    PrintTextBlock(packets::PrintTextBlock),
    SelectLanguage(packets::SelectLanguage),
    Ack(packets::Ack),
    RequestForData(feig::packets::RequestForData),
    WriteFile(feig::packets::WriteFile),
    ChangeConfiguration(feig::packets::ChangeConfiguration),
    CVendFunctions(feig::packets::CVendFunctions),
}

#[derive(ZvtEnum, Debug)]
#[allow(dead_code)]
pub enum AnyB {
    ReceiptPrintoutCompletion(packets::ReceiptPrintoutCompletion),
    ReservationAbort(packets::ReservationAbort),
    WriteData(feig::packets::WriteData),
}

#[derive(ZvtEnum, Debug)]
#[allow(dead_code)]
pub enum AnyC {
    Enhanced(feig::packets::CVendFunctionsEnhancedSystemInformationCompletion),
    PartialReversalAbort(packets::PartialReversalAbort),
}

#[derive(Clone, Copy, Debug, PartialEq, Eq, Serialize, Deserialize)]
pub enum Dec {
    Registration,
    ReadCard,
    Initialization,
    SetTerminalId,
    ResetTerminal,
    Diagnosis,
    EndOfDay,
    Authorization,
    PartialReversal,
    PrintSystemConfiguration,
    SelectLanguage,
    StatusEnquiry,
    GetSystemInfo,
    FactoryReset,
    ChangeHostConfiguration,
    WriteFile,
    IoAck,
    AnyA,
    AnyB,
    AnyC,
}

pub const ALL_DECS: [Dec; 20] = [
    Dec::Registration,
    Dec::ReadCard,
    Dec::Initialization,
    Dec::SetTerminalId,
    Dec::ResetTerminal,
    Dec::Diagnosis,
    Dec::EndOfDay,
    Dec::Authorization,
    Dec::PartialReversal,
    Dec::PrintSystemConfiguration,
    Dec::SelectLanguage,
    Dec::StatusEnquiry,
    Dec::GetSystemInfo,
    Dec::FactoryReset,
    Dec::ChangeHostConfiguration,
    Dec::WriteFile,
    Dec::IoAck,
    Dec::AnyA,
    Dec::AnyB,
    Dec::AnyC,
];

/// Control fields each decoder dispatches on (for the exhaustive short-body sweep).
fn dec_cfs(d: Dec) -> Vec<(u8, u8)> {
    use crate::seqs::*;
    match d {
        Dec::Registration | Dec::ResetTerminal | Dec::SelectLanguage | Dec::FactoryReset => vec![CF_COMPLETION],
        Dec::SetTerminalId | Dec::GetSystemInfo | Dec::ChangeHostConfiguration => vec![CF_COMPLETION, CF_ABORT],
        Dec::ReadCard => vec![CF_INTERMEDIATE, CF_STATUS, CF_ABORT],
        Dec::Initialization => vec![CF_INTERMEDIATE, CF_PRINT_LINE, CF_PRINT_BLOCK, CF_COMPLETION, CF_ABORT],
        Dec::Diagnosis => vec![CF_INTERMEDIATE, CF_SET_TIME, CF_PRINT_LINE, CF_PRINT_BLOCK, CF_COMPLETION, CF_ABORT],
        Dec::EndOfDay | Dec::Authorization | Dec::PartialReversal => {
            vec![CF_INTERMEDIATE, CF_STATUS, CF_PRINT_LINE, CF_PRINT_BLOCK, CF_COMPLETION, CF_ABORT]
        }
        Dec::PrintSystemConfiguration => vec![CF_PRINT_LINE, CF_PRINT_BLOCK, CF_COMPLETION],
        Dec::StatusEnquiry => vec![CF_INTERMEDIATE, CF_PRINT_LINE, CF_PRINT_BLOCK, CF_COMPLETION],
        Dec::WriteFile => vec![CF_COMPLETION, CF_REQUEST_DATA, CF_ABORT],
        Dec::IoAck => vec![CF_ACK],
        Dec::AnyA => vec![
            (0x04, 0x01), (0x04, 0x0f), (0x04, 0xff), (0x05, 0x01), (0x06, 0x00), (0x06, 0x0f), (0x06, 0x18),
            (0x06, 0x1a), (0x06, 0x1b), (0x06, 0x1e), (0x06, 0x01), (0x06, 0x22), (0x06, 0x23), (0x06, 0x25),
            (0x06, 0x50), (0x06, 0x70), (0x06, 0x93), (0x06, 0xc0), (0x06, 0xd1), (0x06, 0xd3), (0x08, 0x30),
            (0x80, 0x00), (0x04, 0x0c), (0x08, 0x14), (0x08, 0x13), (0x0f, 0xa1),
        ],
        Dec::AnyB => vec![(0x06, 0x0f), (0x06, 0x1e), (0x80, 0x00)],
        Dec::AnyC => vec![(0x06, 0x0f), (0x06, 0x1e)],
    }
}

thread_local! {
    /// Debug rendering of the last value decoded on this thread (only kept while WANT_RENDER is set).
    static RENDERED: std::cell::RefCell<Option<String>> = const { std::cell::RefCell::new(None) };
    static WANT_RENDER: std::cell::Cell<bool> = const { std::cell::Cell::new(false) };
}

async fn read_as(d: Dec, pt: &mut PacketTransport<crate::conn::SimConn>) -> bool {
    async fn rd<T: ZvtParser + Send + std::fmt::Debug>(pt: &mut PacketTransport<crate::conn::SimConn>) -> bool {
        match pt.read_packet::<T>().await {
            Ok(v) => {
                if WANT_RENDER.with(|w| w.get()) {
                    RENDERED.with(|r| *r.borrow_mut() = Some(format!("{v:?}")));
                }
                true
            }
            Err(_) => false,
        }
    }
    match d {
        Dec::Registration => rd::<sequences::RegistrationResponse>(pt).await,
        Dec::ReadCard => rd::<sequences::ReadCardResponse>(pt).await,
        Dec::Initialization => rd::<sequences::InitializationResponse>(pt).await,
        Dec::SetTerminalId => rd::<sequences::SetTerminalIdResponse>(pt).await,
        Dec::ResetTerminal => rd::<sequences::ResetTerminalResponse>(pt).await,
        Dec::Diagnosis => rd::<sequences::DiagnosisResponse>(pt).await,
        Dec::EndOfDay => rd::<sequences::EndOfDayResponse>(pt).await,
        Dec::Authorization => rd::<sequences::AuthorizationResponse>(pt).await,
        Dec::PartialReversal => rd::<sequences::PartialReversalResponse>(pt).await,
        Dec::PrintSystemConfiguration => rd::<sequences::PrintSystemConfigurationResponse>(pt).await,
        Dec::SelectLanguage => rd::<sequences::SelectLanguageResponse>(pt).await,
        Dec::StatusEnquiry => rd::<sequences::StatusEnquiryResponse>(pt).await,
        Dec::GetSystemInfo => rd::<feig::sequences::GetSystemInfoResponse>(pt).await,
        Dec::FactoryReset => rd::<feig::sequences::FactoryResetResponse>(pt).await,
        Dec::ChangeHostConfiguration => rd::<feig::sequences::ChangeHostConfigurationResponse>(pt).await,
        Dec::WriteFile => rd::<feig::sequences::WriteFileResponse>(pt).await,
        Dec::IoAck => {
            // io::Ack has no Debug at this commit: read through write_packet_with_ack, as the library does
            pt.write_packet_with_ack(&packets::Ack {}).await.is_ok()
        }
        Dec::AnyA => rd::<AnyA>(pt).await,
        Dec::AnyB => rd::<AnyB>(pt).await,
        Dec::AnyC => rd::<AnyC>(pt).await,
    }
}

#[derive(Clone, Debug, PartialEq, Serialize, Deserialize)]
pub struct C02Plan {
    pub dec: Dec,
    /// The bytes the faulty peer / corrupted stream delivers, then end of stream.
    #[serde(with = "hexser")]
    pub wire: Vec<u8>,
    pub sched: Sched,
    pub fault: String,
    /// Metamorphic check "a number that does not fit is an error, not a silently wrapped value":
    /// `wire[off..off+len]` is the value of one length-prefixed field, all zero. The image is decoded
    /// three times - as it is (A), with 01 in the first byte of the field (B), with 01 in its last
    /// byte (C). If the last byte matters (A and C both decode, to different values) the field is
    /// consumed as a whole; then B must not decode to the same value as A: the high-order byte would
    /// have been dropped without a trace.
    #[serde(default)]
    pub field: Option<(u32, u32)>,
}

struct Sink;
impl Terminal for Sink {
    fn on_bytes(&mut self, io: &mut TermIo<'_>) {
        io.inbox.clear();
    }
}

fn run_plan(plan: &C02Plan, want_trace: bool) -> RunOut {
    let mut out = RunOut::new();
    let log: SharedLog = Arc::new(Mutex::new(Log::default()));
    let (conn, h) = sim_conn(0, plan.sched.clone(), Box::new(Sink), log.clone());
    h.with_io(|io| {
        io.release(&plan.wire);
        io.close(CloseKind::Eof);
    });
    let mut pt = PacketTransport { source: conn };
    let base = alloc_count::begin();
    let dec = plan.dec;
    let budget = 10_000 + 8 * plan.wire.len() as u64;
    let res = guarded(move || {
        let (o, polls) = exec::run(read_as(dec, &mut pt), || false, budget);
        (
            match o {
                Outcome::Done(ok) => {
                    if ok {
                        "ok"
                    } else {
                        "err"
                    }
                }
                Outcome::Stuck => "stuck",
                Outcome::PollLimit => "poll_limit",
            },
            polls,
        )
    });
    let peak = alloc_count::peak_since(base);
    let sigdec = format!("{:?}", plan.dec);
    let mut sh = Hasher64::default();
    sh.str(&sigdec);
    match &res {
        Err((loc, msg)) => {
            sh.str("panic");
            out.fail(
                "panic",
                crate::framework::panic_sig(loc, msg),
                format!(
                    "decoding {} as {sigdec} panicked at {loc}: {msg}",
                    crate::conn::hex(&plan.wire)
                ),
            );
        }
        Ok((o, _polls)) => {
            sh.str(o);
            out.stats.hit(match *o {
                "ok" => "probe.decoded_ok",
                "err" => "probe.decoded_err",
                _ => "probe.no_result",
            });
            if *o == "stuck" || *o == "poll_limit" {
                out.fail(
                    "no_result",
                    format!("{sigdec}/{o}"),
                    format!("reader {o} although the stream was closed behind the packet"),
                );
            }
        }
    }
    if let (Some((off, len)), Ok((o, _))) = (plan.field, &res) {
        let (off, len) = (off as usize, len as usize);
        if *o == "ok" && len >= 2 && off + len <= plan.wire.len() {
            let render = |wire: Vec<u8>| -> Option<String> {
                let log: SharedLog = Arc::new(Mutex::new(Log::default()));
                let (conn, h) = sim_conn(0, Sched::whole(), Box::new(Sink), log);
                h.with_io(|io| {
                    io.release(&wire);
                    io.close(CloseKind::Eof);
                });
                let mut pt = PacketTransport { source: conn };
                WANT_RENDER.with(|w| w.set(true));
                RENDERED.with(|r| *r.borrow_mut() = None);
                let r = guarded(move || exec::run(read_as(dec, &mut pt), || false, budget).0);
                WANT_RENDER.with(|w| w.set(false));
                match r {
                    Ok(Outcome::Done(true)) => RENDERED.with(|r| r.borrow_mut().take()),
                    _ => None,
                }
            };
            let a = render(plan.wire.clone());
            let mut wb = plan.wire.clone();
            wb[off] = 0x01;
            let mut wc = plan.wire.clone();
            wc[off + len - 1] = 0x01;
            let (b, c) = (render(wb), render(wc));
            if let (Some(a), Some(b), Some(c)) = (&a, &b, &c) {
                // the renderings are `Debug` text, which a type may shape as it likes (mask a card id, cut a
                // text): only where A and C differ in a bare, unquoted integer is the field known to be a
                // number whose rendering shows its value
                if a != c && differs_in_a_bare_integer(a, c) {
                    out.stats.hit("probe.field_value_consumed");
                    if a == b {
                        out.fail(
                            "silently_wrapped",
                            format!("{sigdec}/len{len}"),
                            format!(
                                "the {len}-byte field at offset {off} of {} is consumed (its last byte changes the decoded value) but 01 in its first byte decodes to the same value as all zeros: {}",
                                crate::conn::hex(&plan.wire),
                                &a[..a.len().min(300)]
                            ),
                        );
                    }
                }
            } else if a.is_some() && c.is_some() && b.is_none() {
                out.stats.hit("probe.oversized_number_refused");
            }
        }
    }
    // 64 KiB is what the APDU header itself may announce (the transport sizes its
    // buffer from it before the body arrives); the rest is slack for error values
    // and harness bookkeeping.
    let bound = 64 * plan.wire.len() + 160 * 1024;
    if peak > bound {
        out.fail(
            "allocation",
            sigdec.clone(),
            format!(
                "decoding {} input bytes allocated {} bytes at peak (bound 64*len + 160 KiB = {})",
                plan.wire.len(),
                peak,
                bound
            ),
        );
    }
    // shape: decoder, outcome, fault kind, first two bytes, length class
    sh.str(&plan.fault);
    sh.bytes(&plan.wire[..plan.wire.len().min(2)]);
    sh.u64(plan.wire.len() as u64);
    // position-insensitive content class so that distinct corrupt positions count
    let mut c = Hasher64::default();
    c.bytes(&plan.wire);
    sh.u64(c.finish() & 0xffff);
    out.shape = sh.finish();
    out.nontrivial = !plan.fault.is_empty();
    out.stats.add_fired(&h.fired());
    out.stats.hit(match plan.fault.split(':').next().unwrap_or("") {
        "corrupt" => "fault.corrupt_byte",
        "truncate" => "fault.truncate",
        "ber" => "fault.ber_prefix",
        "short" => "fault.short_body",
        "digits" => "fault.digit_overflow",
        "calendar" => "fault.calendar",
        "splice" => "fault.tag_splice",
        "stack" => "fault.stacked",
        "len" => "fault.apdu_length_edit",
        "widen" => "fault.oversized_number",
        "nest" => "fault.deep_nesting",
        "ber_form" => "fault.ber_length_form",
        _ => "fault.none",
    });
    let log = log.lock().unwrap();
    out.trace_hash = log.hash();
    if want_trace {
        out.trace = log.render();
        out.trace.push(format!("wire={} result={:?} peak_alloc={}", crate::conn::hex(&plan.wire), res, peak));
    }
    out
}

// ---------------------------------------------------------------- corpus

fn datetime_tlv(date: u32, time: u32) -> Tlv {
    Tlv::cons(
        0x34,
        vec![
            Tlv::prim(0x1f0e, &rc::bcd(date as u64, 4)),
            Tlv::prim(0x1f0f, &rc::bcd(time as u64, 3)),
        ],
    )
}

fn receipt_printout(date: u32, time: u32) -> Vec<u8> {
    let mut p = Pkt::new(0x06, 0x0f);
    let sw = b"GER-APP-v2.0.9;cS02.01.01-10.10-2-2;CC26";
    p = p.pos(&[0xf0, 0xf4, 0xf0]); // LLLVAR 040
    let mut swp = sw.to_vec();
    swp.truncate(40);
    while swp.len() < 40 {
        swp.push(b' ');
    }
    p = p.pos(&swp).pos(&[0x00]);
    p.tlv(&[
        Tlv::prim(0x1f44, &rc::bcd(52523535, 4)),
        Tlv::cons(
            0xe4,
            vec![
                Tlv::prim(0x1f40, b"cVEND plug"),
                Tlv::prim(0x1f41, b"GER-APP-v2.0.9"),
                Tlv::prim(0x1f42, &rc::bcd(12345678, 4)),
                Tlv::prim(0x1f43, &[0x00]),
            ],
        ),
        datetime_tlv(date, time),
    ])
    .encode()
}

/// Richly populated valid frames of every packet type on the simulated wire.
pub fn corpus(repo: &str) -> Vec<Vec<u8>> {
    let mut c: Vec<Vec<u8>> = vec![];
    if let Ok(rd) = std::fs::read_dir(format!("{repo}/zvt/data")) {
        let mut names: Vec<_> = rd.filter_map(|e| e.ok()).map(|e| e.path()).collect();
        names.sort();
        for p in names {
            if let Ok(b) = std::fs::read(&p) {
                if b.len() <= 400 {
                    c.push(b);
                } else {
                    // long captures (receipts, firmware blocks): keep the head, fix the APDU length
                    if let Some((h, _)) = rc::frame_dims(&b) {
                        let body = &b[h..(h + 300).min(b.len())];
                        c.push(rc::apdu((b[0], b[1]), body));
                    }
                }
            }
        }
    }
    let bmp60 = Tlv::cons(0xe9, vec![Tlv::prim(0x1f62, b"AC"), Tlv::prim(0x1f63, b"TOKEN-1")]);
    // status information with every BMP the type knows and a full TLV container
    let mut single = rc::bcd(233, 2);
    single.extend(rc::bcd(234, 2));
    for i in 0..7u8 {
        single.push(i);
        single.extend(rc::bcd(958 * i as u64, 6));
    }
    let status_full = Pkt::new(0x04, 0x0f)
        .byte(0x27, 0)
        .bcd(0x04, 2500)
        .bcd(0x0b, 975)
        .bcd(0x0c, 225558)
        .bcd(0x0d, 405)
        .bcd(0x0e, 2405)
        .bcd(0x17, 1)
        .byte(0x19, 0x60)
        .raw(0x22, &[0x55, 0x98, 0x84, 0x55, 0x55, 0x54, 0x80, 0x74])
        .raw(0x23, &[0x12, 0x34, 0xd2, 0x40, 0x5f])
        .bcd(0x29, 52523535)
        .raw(0x2a, b"804011926      ")
        .raw(0x3b, b"750071\0\0")
        .raw(0x3c, b"AS-Proc-Code= 00 076 06\rCapt.-Ref.= 0099")
        .raw(0x60, &single)
        .bcd(0x87, 231)
        .bcd(0x49, 978)
        .byte(0x8a, 6)
        .raw(0x8b, b"MasterCard\0")
        .byte(0x8c, 1)
        .tlv(&[
            Tlv::prim(0x4c, &[0, 0, 0, 0, 0, 0, 8, 0x1c, 0xa7, 0x2f]),
            Tlv::prim(0x1f0b, &rc::bcd(10000, 6)),
            Tlv::prim(0x1f14, &[0x3f, 0x56, 0xa3, 0x20]),
            Tlv::prim(0x1f45, &[5, 0x78, 0x80, 0x70, 2]),
            Tlv::prim(0x1f4c, &[1]),
            Tlv::prim(0x1f4d, &[0xfe, 4]),
            Tlv::prim(0x1f4f, &[4, 0]),
            Tlv::prim(0x1f50, &[0x20]),
            Tlv::cons(0x60, vec![Tlv::prim(0x43, &[0xa0, 0, 0, 0, 4, 0x10, 0x10]), Tlv::prim(0x41, &[0x00, 0x05])]),
            Tlv::cons(0x60, vec![Tlv::prim(0x43, &[0xa0, 0, 0, 0, 3, 0x10, 0x10])]),
            Tlv::cons(0x62, vec![Tlv::cons(0x60, vec![Tlv::prim(0x43, &[0xd2, 0x76, 0, 0, 0x25])])]),
        ])
        .encode();
    c.push(status_full);
    c.push(receipt_printout(20230405, 225558));
    c.push(rc::completion_with(Some(0x10), Some(52523535), Some(978)));
    c.push(Pkt::new(0x06, 0x0f).byte(0x27, 0).byte(0x19, 0).bcd(0x29, 1).bcd(0x49, 978).encode());
    c.push(rc::abort(0x6c, rc::AbortExtra::None));
    c.push(rc::abort(0xb8, rc::AbortExtra::Receipt(491)));
    c.push(rc::abort(0xb8, rc::AbortExtra::NoneMarker));
    // reservation abort: code, currency, TLV { 1f16, 1f17 }
    c.push(
        Pkt::new(0x06, 0x1e)
            .pos(&[0x6f])
            .pos(&rc::bcd(978, 2))
            .tlv(&[Tlv::prim(0x1f16, &rc::bcd(1234, 2)), Tlv::prim(0x1f17, b"declined")])
            .encode(),
    );
    c.push(rc::intermediate(0x17, None));
    c.push(rc::intermediate(0x0e, Some(45)));
    c.push(rc::print_line(0x41, b"   ** Customer Receipt **   "));
    c.push(rc::print_line(0x00, b""));
    c.push(rc::print_text_block(2, &[b"Purchase MASTERCARD".to_vec(), b"".to_vec(), b"EUR 25,00".to_vec()]));
    c.push(Pkt::new(0x06, 0xd3).tlv(&[Tlv::prim(0x1f07, &[1]), Tlv::cons(0x25, vec![Tlv::prim(0x07, b"x"), Tlv::prim(0x09, &[3])])]).encode());
    c.push(rc::set_time_and_date(230405, 225558));
    c.push(rc::request_for_data(Some(0x23), Some(65000), true, true));
    c.push(rc::sysinfo(b"17FD1E3C", b"GER-APP-v2.0.9   ", b"52523535", b"24.4"));
    c.push(rc::sysinfo(b"17FE5C90", b"GER-APP-v2.0.9   ", b"52525111", b"8.0"));
    // ECR -> PT commands (PT role)
    c.push(
        Pkt::new(0x06, 0x00)
            .pos(&rc::bcd(123456, 3))
            .pos(&[0xde])
            .pos(&rc::bcd(978, 2))
            .tlv(&[Tlv::prim(0x1a, &[0x04, 0x00])])
            .encode(),
    );
    let auth_like = |cf: (u8, u8)| {
        let mut p = Pkt::new(cf.0, cf.1)
            .bcd(0x04, 2500)
            .bcd(0x49, 978)
            .byte(0x19, 0x40)
            .bcd(0x0e, 2405)
            .raw(0x22, &[0x55, 0x98, 0x84, 0x55, 0x55, 0x54, 0x80, 0x74])
            .raw(0x23, &[0x12, 0x34, 0xd2, 0x40])
            .byte(0x01, 10)
            .byte(0x02, 3)
            .byte(0x05, 1);
        if cf == (0x06, 0x22) {
            p = p.bcd(0x0b, 975).raw(0x3b, b"750071\0\0");
        }
        p.raw(0x3c, b"additional text").byte(0x8a, 6).tlv(&[bmp60.clone()]).encode()
    };
    c.push(auth_like((0x06, 0x01)));
    c.push(auth_like((0x06, 0x22)));
    c.push(
        Pkt::new(0x06, 0x23)
            .bcd(0x87, 491)
            .bcd(0x04, 1295)
            .byte(0x19, 0x40)
            .bcd(0x49, 978)
            .tlv(&[bmp60.clone()])
            .encode(),
    );
    c.push(Pkt::new(0x06, 0x23).raw(0x87, &[0xff, 0xff]).encode());
    c.push(Pkt::new(0x06, 0x25).byte(0x19, 0x40).bcd(0x49, 978).bcd(0x87, 231).encode());
    c.push(Pkt::new(0x05, 0x01).pos(&rc::bcd(123456, 3)).byte(0x03, 5).tlv(&[Tlv::prim(0x1ff2, &[1])]).encode());
    c.push(Pkt::new(0x06, 0x1b).pos(&rc::bcd(123456, 3)).bcd(0x29, 52523535).encode());
    c.push(Pkt::new(0x06, 0x70).tlv(&[Tlv::prim(0x1b, &[2])]).encode());
    c.push(Pkt::new(0x06, 0x93).pos(&rc::bcd(123456, 3)).encode());
    c.push(Pkt::new(0x06, 0x50).pos(&rc::bcd(123456, 3)).encode());
    c.push(Pkt::new(0x06, 0x18).encode());
    c.push(Pkt::new(0x06, 0x1a).encode());
    c.push(Pkt::new(0x08, 0x30).pos(&[1]).encode());
    c.push(
        Pkt::new(0x06, 0xc0)
            .pos(&[15])
            .byte(0x19, 0x10)
            .byte(0xfc, 2)
            .tlv(&[Tlv::prim(0x1f15, &[0xd0]), Tlv::prim(0x1f60, &[7])])
            .encode(),
    );
    c.push(
        Pkt::new(0x08, 0x14)
            .pos(&rc::bcd(123456, 3))
            .tlv(&[
                Tlv::cons(0x2d, vec![Tlv::prim(0x1d, &[0x23]), Tlv::prim(0x1f00, &3357255u32.to_be_bytes())]),
                Tlv::cons(0x2d, vec![Tlv::prim(0x1d, &[0x13]), Tlv::prim(0x1f00, &1068u32.to_be_bytes())]),
            ])
            .encode(),
    );
    c.push(
        Pkt::new(0x08, 0x13)
            .tlv(&[Tlv::cons(
                0xe4,
                vec![Tlv::prim(0xff40, &rc::bcd(123456, 3)), Tlv::prim(0xff41, &[213, 183, 19, 105, 0x76, 0xc1, 1])],
            )])
            .encode(),
    );
    c.push(Pkt::new(0x0f, 0xa1).pos(&rc::bcd(123456, 3)).pos(&[0x02, 0x55]).encode());
    c.push(Pkt::new(0x0f, 0xa1).pos(&[0x00, 0x01]).encode());
    c.push(
        Pkt::new(0x80, 0x00)
            .tlv(&[Tlv::cons(
                0x2d,
                vec![
                    Tlv::prim(0x1d, &[0x13]),
                    Tlv::prim(0x1e, &0u32.to_be_bytes()),
                    Tlv::prim(0x1c, &(0..200u32).map(|i| i as u8).collect::<Vec<u8>>()),
                ],
            )])
            .encode(),
    );
    c.push(rc::ACK.to_vec());
    c.sort();
    c.dedup();
    c
}

const SPECIAL: [u8; 12] = [0x00, 0x01, 0x06, 0x7f, 0x80, 0x81, 0x82, 0x83, 0x99, 0xf0, 0xfe, 0xff];

fn calendar_values() -> Vec<(u32, u32)> {
    let mut v = vec![];
    for date in [
        20231301u32, 20230001, 20230100, 20230132, 20230230, 20230431, 0, 99999999, 20231231, 20230229, 20240229,
        19000229, 20231131, 10000101, 99991231, 20230631, 20231000,
    ] {
        for time in [0u32, 235959, 240000, 236000, 235960, 999999, 120000] {
            v.push((date, time));
        }
    }
    v
}

fn mutate_stack(rng: &mut Rng, corpus: &[Vec<u8>]) -> Vec<u8> {
    let mut w = rng.pick(corpus).clone();
    let n = 1 + rng.usize_below(4);
    for _ in 0..n {
        if w.len() < 4 {
            break;
        }
        match rng.below(7) {
            0 => {
                let off = rng.usize_below(w.len());
                w[off] = if rng.pct(60) { *rng.pick(&SPECIAL) } else { rng.next_u64() as u8 };
            }
            1 => {
                // truncate, fix APDU length
                let keep = 3 + rng.usize_below(w.len() - 3);
                w.truncate(keep);
            }
            2 => {
                // 0x99 run
                let off = 3 + rng.usize_below(w.len() - 3);
                let r = 1 + rng.usize_below(11);
                for i in off..(off + r).min(w.len()) {
                    w[i] = 0x99;
                }
            }
            3 => {
                // splice a chunk of another frame
                let donor = rng.pick(corpus);
                if donor.len() > 4 {
                    let a = 3 + rng.usize_below(donor.len() - 3);
                    let b = (a + 1 + rng.usize_below(12)).min(donor.len());
                    let at = 3 + rng.usize_below(w.len() - 2);
                    let chunk = donor[a..b].to_vec();
                    w.splice(at..at, chunk);
                }
            }
            4 => {
                // duplicate a chunk in place
                let a = 3 + rng.usize_below(w.len() - 3);
                let b = (a + 1 + rng.usize_below(8)).min(w.len());
                let chunk = w[a..b].to_vec();
                w.splice(b..b, chunk);
            }
            5 => {
                // BER prefix at the end
                let t: &[u8] = *rng.pick(&[&[0x81u8][..], &[0x82], &[0x82, 0x01], &[0x1f], &[0x06, 0x82], &[0x06, 0x81]]);
                w.extend_from_slice(t);
            }
            _ => {
                let off = 3 + rng.usize_below(w.len() - 3);
                w.remove(off);
            }
        }
    }
    // re-frame so that the body reaches the decoder (most of the time)
    if rng.pct(85) && w.len() >= 3 {
        let cf = (w[0], w[1]);
        let body_start = if w[2] == 0xff && w.len() >= 5 { 5 } else { 3 };
        let body = w[body_start.min(w.len())..].to_vec();
        w = rc::apdu(cf, &body[..body.len().min(65535)]);
    }
    w
}

fn plan(dec: Dec, wire: Vec<u8>, fault: &str) -> C02Plan {
    C02Plan {
        dec,
        wire,
        sched: Sched::whole(),
        fault: fault.to_string(),
        field: None,
    }
}

/// Do two renderings differ in exactly one token that is an unquoted run of decimal digits in both?
fn differs_in_a_bare_integer(a: &str, c: &str) -> bool {
    let (ab, cb) = (a.as_bytes(), c.as_bytes());
    let pre = ab.iter().zip(cb.iter()).take_while(|(x, y)| x == y).count();
    let suf = ab[pre..].iter().rev().zip(cb[pre..].iter().rev()).take_while(|(x, y)| x == y).count();
    let word = |b: u8| b.is_ascii_alphanumeric() || b == b'_' || b == b'*' || b == b'.';
    let token = |s: &[u8], from: usize, to: usize| -> (usize, usize) {
        let mut l = from.min(s.len());
        while l > 0 && word(s[l - 1]) {
            l -= 1;
        }
        let mut r = to.min(s.len());
        while r < s.len() && word(s[r]) {
            r += 1;
        }
        (l, r)
    };
    let (al, ar) = token(ab, pre, ab.len() - suf);
    let (cl, cr) = token(cb, pre, cb.len() - suf);
    let digits = |s: &[u8]| !s.is_empty() && s.iter().all(|b| b.is_ascii_digit());
    let unquoted = |s: &[u8], at: usize| s[..at].iter().filter(|b| **b == b'"').count() % 2 == 0;
    al <= ar && cl <= cr && digits(&ab[al..ar]) && digits(&cb[cl..cr]) && unquoted(ab, al) && unquoted(cb, cl)
}

/// Every primitive TLV leaf of `frame` (as the reference codec sees it) widened to `len` zero
/// bytes, one image per leaf: (wire image, offset of the field's value in it).
fn widened_leaves(frame: &[u8], len: usize) -> Vec<(Vec<u8>, u32)> {
    const MARK: [u8; 24] = [0xa5, 0x5a, 0xc3, 0x3c, 0x96, 0x69, 0xf1, 0x1f, 0xab, 0x57, 0xcd, 0xdc, 0xe1, 0x1e, 0x9b, 0xb9, 0x7d, 0xd7, 0x8e, 0xe8, 0x6b, 0xb6, 0x4f, 0xf4];
    fn leaves(ts: &[Tlv], path: &mut Vec<usize>, out: &mut Vec<Vec<usize>>) {
        for (i, t) in ts.iter().enumerate() {
            path.push(i);
            match &t.val {
                rc::TlvVal::Prim(_) => out.push(path.clone()),
                rc::TlvVal::Cons(c) => leaves(c, path, out),
            }
            path.pop();
        }
    }
    fn set(ts: &mut [Tlv], path: &[usize], v: &[u8]) {
        let t = &mut ts[path[0]];
        if path.len() == 1 {
            t.val = rc::TlvVal::Prim(v.to_vec());
        } else if let rc::TlvVal::Cons(c) = &mut t.val {
            set(c, &path[1..], v);
        }
    }
    let Ok(p) = Pkt::decode(frame) else { return vec![] };
    let Some(ts) = p.tlvs() else { return vec![] };
    let mut paths = vec![];
    leaves(&ts, &mut vec![], &mut paths);
    let mut out = vec![];
    for path in paths {
        let mut t2 = ts.clone();
        set(&mut t2, &path, &MARK[..len.min(MARK.len())]);
        let mut p2 = p.clone();
        for b in p2.bmps.iter_mut() {
            if b.0 == 0x06 {
                b.1 = rc::enc_tlvs(&t2);
            }
        }
        if p2.body().len() > 65535 {
            continue;
        }
        let mut w = p2.encode();
        let m = &MARK[..len.min(MARK.len())];
        if let Some(off) = w.windows(m.len()).position(|x| x == m) {
            for b in &mut w[off..off + m.len()] {
                *b = 0;
            }
            out.push((w, off as u32));
        }
    }
    out
}

/// `depth` constructed TLV objects nested inside each other (tags from `tags`, cycled), inside the
/// TLV container of a packet `cf`; innermost a primitive. Lengths exact.
fn nested_frame(cf: (u8, u8), prefix: &[u8], tags: &[u16], depth: usize) -> Option<Vec<u8>> {
    let mut inner = Tlv::prim(0x1f4c, &[1]).encode();
    for d in 0..depth {
        let tag = tags[(depth - 1 - d) % tags.len()];
        let mut t = rc::tag_bytes(tag);
        t.extend(rc::ber_len(inner.len()));
        t.extend(inner);
        inner = t;
    }
    let mut body = prefix.to_vec();
    body.push(0x06);
    body.extend(rc::ber_len(inner.len()));
    body.extend(inner);
    if body.len() > 65535 {
        return None;
    }
    Some(rc::apdu(cf, &body))
}

impl Check for C02 {
    type Plan = C02Plan;
    fn id(&self) -> &'static str {
        "C02"
    }
    fn level(&self) -> &'static str {
        "fault_enumeration"
    }

    fn families(&self, tier: Tier, _seed: u64) -> Vec<Family<C02Plan>> {
        let repo = std::env::var("VERIF_REPO").unwrap_or_else(|_| "/repo".to_string());
        let corpus = Arc::new(corpus(&repo));
        let nd = ALL_DECS.len() as u64;
        let mut fams = vec![];
        // offsets table: (corpus index, offset)
        let mut offs: Vec<(u32, u32)> = vec![];
        for (ci, f) in corpus.iter().enumerate() {
            for o in 0..f.len() {
                offs.push((ci as u32, o as u32));
            }
        }
        let offs = Arc::new(offs);
        let no = offs.len() as u64;
        // 0. the valid corpus itself
        {
            let c = corpus.clone();
            fams.push(Family::new("valid_corpus", c.len() as u64 * nd, true, move |i, _| {
                plan(ALL_DECS[(i % nd) as usize], c[(i / nd) as usize].clone(), "")
            }));
        }
        // 1. one byte substituted in transit, every offset
        {
            let (c, o) = (corpus.clone(), offs.clone());
            let vals: Vec<u8> = match tier {
                Tier::Quick => SPECIAL.to_vec(),
                Tier::Thorough => (0..=255).collect(),
            };
            let nv = vals.len() as u64;
            fams.push(Family::new(
                "corrupt_every_offset",
                no * nv * nd,
                tier == Tier::Thorough,
                move |i, _| {
                    let d = ALL_DECS[(i % nd) as usize];
                    let v = vals[((i / nd) % nv) as usize];
                    let (ci, off) = o[(i / nd / nv) as usize];
                    let mut w = c[ci as usize].clone();
                    w[off as usize] = v;
                    plan(d, w, "corrupt")
                },
            ));
        }
        // 2. frame cut at every length, APDU length adjusted; plus BER/tag prefixes at the cut
        {
            let (c, o) = (corpus.clone(), offs.clone());
            const TAILS: [&[u8]; 8] = [&[], &[0x81], &[0x82], &[0x82, 0x01], &[0x1f], &[0xff], &[0x06, 0x82], &[0xf0]];
            let nt = TAILS.len() as u64;
            fams.push(Family::new("truncate_every_length", no * nt * nd, true, move |i, _| {
                let d = ALL_DECS[(i % nd) as usize];
                let t = TAILS[((i / nd) % nt) as usize];
                let (ci, off) = o[(i / nd / nt) as usize];
                let f = &c[ci as usize];
                let (h, _) = rc::frame_dims(f).unwrap_or((3, 0));
                let keep = (off as usize).max(h).min(f.len());
                let mut body = f[h.min(f.len())..keep].to_vec();
                if t.len() <= body.len() {
                    let n = body.len();
                    body[n - t.len()..].copy_from_slice(t);
                } else {
                    body = t.to_vec();
                }
                plan(d, rc::apdu((f[0], f[1]), &body), if t.is_empty() { "truncate" } else { "ber" })
            }));
        }
        // 2b. the byte at every offset rewritten as a BER length prefix in every other form: where it *is* a
        // length, the field keeps its value in a non-minimal / long form (81 n, 82 00 n, 83.., 84..), elsewhere
        // it is one more corruption; also lengths that point far beyond the buffer
        {
            let (c, o) = (corpus.clone(), offs.clone());
            const NF: u64 = 9;
            fams.push(Family::new("ber_length_form_at_every_offset", no * NF * nd, true, move |i, _| {
                let d = ALL_DECS[(i % nd) as usize];
                let form = (i / nd) % NF;
                let (ci, off) = o[(i / nd / NF) as usize];
                let f = &c[ci as usize];
                let (h, _) = rc::frame_dims(f).unwrap_or((3, 0));
                let off = (off as usize).max(h).min(f.len().saturating_sub(1));
                if f.len() <= h {
                    return plan(d, f.clone(), "ber_form");
                }
                let mut body = f[h..].to_vec();
                let at = off - h;
                let n = body[at];
                let rep: Vec<u8> = match form {
                    0 => vec![0x81, n],
                    1 => vec![0x82, 0x00, n],
                    2 => vec![0x83, 0x00, 0x00, n],
                    3 => vec![0x84, 0x00, 0x00, 0x00, n],
                    4 => vec![0x82, 0x01, n],
                    5 => vec![0x82, 0xff, 0xff],
                    6 => vec![0x84, 0xff, 0xff, 0xff, 0xff],
                    7 => vec![0x88, 0, 0, 0, 0, 0, 0, 0, n],
                    _ => vec![0x80],
                };
                body.splice(at..at + 1, rep);
                body.truncate(65535);
                plan(d, rc::apdu((f[0], f[1]), &body), "ber_form")
            }));
        }
        // 2c. every length-prefixed TLV field of the corpus widened beyond any integer: a number that
        // does not fit is an error, never a silently wrapped value (metamorphic, see C02Plan::field)
        {
            let mut cases: Vec<(Vec<u8>, u32, u32)> = vec![];
            for f in corpus.iter() {
                for len in [9usize, 11, 17] {
                    for (w, off) in widened_leaves(f, len) {
                        cases.push((w, off, len as u32));
                    }
                }
            }
            let cases = Arc::new(cases);
            let n = cases.len() as u64;
            fams.push(Family::new("oversized_numbers_are_errors_not_wrapped", n * nd, true, move |i, _| {
                let (w, off, len) = &cases[(i / nd) as usize];
                let mut p = plan(ALL_DECS[(i % nd) as usize], w.clone(), "widen");
                p.field = Some((*off, *len));
                p
            }));
        }
        // 2d. constructed TLV objects nested 1..2000 deep (known and unknown tags), exact lengths: decoding
        // costs time and memory proportional to the input, whatever the log level
        {
            const DEPTHS: [usize; 9] = [1, 2, 8, 33, 100, 200, 400, 1000, 2000];
            const TAGSETS: [&[u16]; 5] = [&[0xe1], &[0x62, 0x60], &[0x25], &[0x2d, 0xe4, 0x34], &[0xff21, 0x7f, 0xe9]];
            const HOSTS: [((u8, u8), &[u8]); 5] = [((0x04, 0x0f), &[0x27, 0x00]), ((0x06, 0x0f), &[]), ((0x06, 0xd3), &[]), ((0x04, 0x0c), &[]), ((0x06, 0x1e), &[0x6f, 0x09, 0x78])];
            let n = (DEPTHS.len() * TAGSETS.len() * HOSTS.len()) as u64;
            fams.push(Family::new("deeply_nested_containers", n * nd, true, move |i, _| {
                let d = ALL_DECS[(i % nd) as usize];
                let k = (i / nd) as usize;
                let depth = DEPTHS[k % DEPTHS.len()];
                let tags = TAGSETS[(k / DEPTHS.len()) % TAGSETS.len()];
                let (cf, prefix) = HOSTS[k / DEPTHS.len() / TAGSETS.len()];
                let w = nested_frame(cf, prefix, tags, depth).unwrap_or_else(|| rc::apdu(cf, prefix));
                plan(d, w, "nest")
            }));
        }
        // 3. runs of 0x99 (BCD digits beyond the integer width), every offset
        {
            let (c, o) = (corpus.clone(), offs.clone());
            let runs: Vec<u32> = match tier {
                Tier::Quick => vec![2, 3, 5, 10],
                Tier::Thorough => (1..=12).collect(),
            };
            let nr = runs.len() as u64;
            fams.push(Family::new("digit_overflow_runs", no * nr * nd, true, move |i, _| {
                let d = ALL_DECS[(i % nd) as usize];
                let r = runs[((i / nd) % nr) as usize];
                let (ci, off) = o[(i / nd / nr) as usize];
                let mut w = c[ci as usize].clone();
                let off = (off as usize).max(3).min(w.len());
                for k in off..(off + r as usize).min(w.len()) {
                    w[k] = 0x99;
                }
                plan(d, w, "digits")
            }));
        }
        // 4. every body of length <= 2 under each control field of each decoder
        {
            let mut pairs: Vec<(Dec, (u8, u8))> = vec![];
            for d in ALL_DECS {
                for cf in dec_cfs(d) {
                    pairs.push((d, cf));
                }
            }
            let np = pairs.len() as u64;
            match tier {
                Tier::Thorough => {
                    fams.push(Family::new("all_bodies_len_le_2", np * 65793, true, move |i, _| {
                        let (d, cf) = pairs[(i % np) as usize];
                        let b = i / np;
                        let body: Vec<u8> = if b == 0 {
                            vec![]
                        } else if b <= 256 {
                            vec![(b - 1) as u8]
                        } else {
                            vec![((b - 257) >> 8) as u8, (b - 257) as u8]
                        };
                        plan(d, rc::apdu(cf, &body), "short")
                    }));
                }
                Tier::Quick => {
                    let ns = SPECIAL.len() as u64;
                    fams.push(Family::new("all_bodies_len_le_1_special_len_2", np * (257 + ns * ns), false, move |i, _| {
                        let (d, cf) = pairs[(i % np) as usize];
                        let b = i / np;
                        let body: Vec<u8> = if b == 0 {
                            vec![]
                        } else if b <= 256 {
                            vec![(b - 1) as u8]
                        } else {
                            let k = b - 257;
                            vec![SPECIAL[(k / ns) as usize], SPECIAL[(k % ns) as usize]]
                        };
                        plan(d, rc::apdu(cf, &body), "short")
                    }));
                }
            }
        }
        // 5. impossible calendar values in the date-time container
        {
            let cal = calendar_values();
            let n = cal.len() as u64;
            fams.push(Family::new("calendar_values", n * 2, true, move |i, _| {
                let (date, time) = cal[(i / 2) as usize];
                plan(if i % 2 == 0 { Dec::AnyB } else { Dec::AnyA }, receipt_printout(date, time), "calendar")
            }));
        }
        // 6. APDU length byte edits (framing disagrees with content), stream closed behind
        {
            let c = corpus.clone();
            let nc = c.len() as u64;
            fams.push(Family::new("apdu_length_edits", nc * 6 * nd, true, move |i, _| {
                let d = ALL_DECS[(i % nd) as usize];
                let k = (i / nd) % 6;
                let mut w = c[(i / nd / 6) as usize].clone();
                match k {
                    0 => w[2] = w[2].wrapping_add(1),
                    1 => w[2] = w[2].wrapping_sub(1),
                    2 => w[2] = 0,
                    3 => w[2] = 0xfe,
                    4 => {
                        w[2] = 0xff;
                    }
                    _ => {
                        // extended form announcing the true length
                        let (h, l) = rc::frame_dims(&w).unwrap_or((3, 0));
                        let body = w[h.min(w.len())..].to_vec();
                        w = vec![w[0], w[1], 0xff, l as u8, (l >> 8) as u8];
                        w.extend(body);
                    }
                }
                plan(d, w, "len")
            }));
        }
        // 7. PRNG structure-aware stacks of the above
        {
            let c = corpus.clone();
            let count = match tier {
                Tier::Quick => 1_500_000,
                Tier::Thorough => 40_000_000,
            };
            fams.push(Family::new("stacked_mutations", count, false, move |_i, rng| {
                let w = mutate_stack(rng, &c);
                // bias the decoder choice towards one that accepts the control field
                let d = if rng.pct(75) {
                    let cf = (w.first().copied().unwrap_or(0), w.get(1).copied().unwrap_or(0));
                    let accepting: Vec<Dec> = ALL_DECS.iter().copied().filter(|d| dec_cfs(*d).contains(&cf)).collect();
                    if accepting.is_empty() {
                        *rng.pick(&ALL_DECS)
                    } else {
                        *rng.pick(&accepting)
                    }
                } else {
                    *rng.pick(&ALL_DECS)
                };
                let mut p = plan(d, w, "stack");
                if rng.pct(20) {
                    p.sched = Sched::random(rng);
                }
                p
            }));
        }
        fams
    }

    fn run(&self, plan: &C02Plan, want_trace: bool) -> RunOut {
        run_plan(plan, want_trace)
    }

    fn shrink(&self, plan: &C02Plan) -> Vec<C02Plan> {
        let mut out = vec![];
        let mut push = |p: C02Plan| {
            if p != *plan {
                out.push(p)
            }
        };
        let mut p = plan.clone();
        p.sched = Sched::whole();
        push(p);
        let w = &plan.wire;
        if w.len() > 3 && w[2] != 0xff {
            // drop one body byte at a time (from the end first), keeping the framing consistent
            let body = &w[3..];
            for cut in [body.len() / 2, 1] {
                if body.len() > cut {
                    let mut p = plan.clone();
                    p.wire = rc::apdu((w[0], w[1]), &body[..body.len() - cut]);
                    push(p);
                }
            }
            for i in (0..body.len()).rev().take(64) {
                let mut b = body.to_vec();
                b.remove(i);
                let mut p = plan.clone();
                p.wire = rc::apdu((w[0], w[1]), &b);
                push(p);
            }
            for i in 0..body.len().min(64) {
                if body[i] != 0 {
                    let mut b = body.to_vec();
                    b[i] = 0;
                    let mut p = plan.clone();
                    p.wire = rc::apdu((w[0], w[1]), &b);
                    push(p);
                }
            }
        }
        out
    }

    fn rule_text(&self) -> String {
        "one run = one wire image (a corrupted valid packet, then end of stream) read by the real read_packet::<T> for T in 17 reply parsers (15 distinct enums + WriteFileResponse + io::Ack) and 3 PT-role enums covering all 31 shipped command types; faults enumerated over a corpus of richly populated valid frames (25 captures + reference-codec frames of every type): one byte substituted at every offset (thorough: all 256 values; quick: 12 boundary values), truncation at every length with BER/tag prefixes planted at the cut, 0x99 runs at every offset, every body of length <= 2 under each control field of each parser (quick: length <= 1 and boundary pairs), impossible calendar values, APDU length edits, PRNG stacks of these; invariants: no panic (overflow checks on), a result within the poll budget and the 180 s wall-clock watchdog, peak allocation <= 64*len + 160 KiB (64 KiB of which is the largest body an APDU header can announce); distinct = hash of (parser, outcome, fault kind, length, content class)".into()
    }
    fn assumptions(&self) -> Vec<String> {
        vec![
            "release build with overflow-checks = true: a wrapped value in release and a panic in debug are the same defect; the panic is observable".into(),
            "claimed as a fault property (wire corruption reaching the decoders through the real transport), not as an input-space enumeration of pure functions".into(),
            "allocation is measured by a counting global allocator with per-thread counters; harness bookkeeping is included in the bound".into(),
        ]
    }
    fn components_real(&self) -> Vec<&'static str> {
        vec![
            "zvt::io::PacketTransport::read_packet",
            "all zvt_derive generated decoders of zvt::packets / zvt::feig::packets (31 command types, nested TLV containers)",
            "zvt_builder length/encoding/tag decoders",
            "zvt_derive zvt_enum parsers (20 enums)",
        ]
    }
    fn components_stub(&self) -> Vec<&'static str> {
        vec!["connection (SimConn)", "peer (corrupted byte stream)", "executor (own poll loop)"]
    }
    fn expected_probes(&self) -> Vec<&'static str> {
        vec![
            "probe.decoded_ok",
            "probe.decoded_err",
            "fault.corrupt_byte",
            "fault.truncate",
            "fault.ber_prefix",
            "fault.short_body",
            "fault.digit_overflow",
            "fault.calendar",
            "fault.apdu_length_edit",
            "fault.stacked",
        ]
    }
}
