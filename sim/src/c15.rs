//! C15 — replies are dispatched solely by their class and instruction bytes.
//! C06's "foreign control field" fault made exhaustive: for every sequence's
//! reply parser and all 65,536 control fields, one well-framed reply is sent
//! through the real transport and sequence; the reference model (alphabet
//! table + the packet type's own stand-alone decode) predicts the outcome.
use crate::c05::shrink_explan;
use crate::exchange::{run_and_judge, ExPlan, Mode};
use crate::framework::{Check, Family, RunOut, Tier};
use crate::refcodec as rc;
use crate::rng::Rng;
use crate::seqs::{self, Cf, InParams, Reply, SeqId, ALL_SEQS};

pub struct C15;

/// Body kinds: empty, valid for the target variant (the packet of the
/// alphabet with the same control field, else the first of the alphabet),
/// valid for another variant, PRNG bytes.
fn frame_for(id: SeqId, cf: Cf, kind: u8, rng: &mut Rng) -> Vec<u8> {
    let info = seqs::info(id);
    let alpha = info.alphabet();
    match kind {
        0 => rc::apdu(cf, &[]),
        1 => {
            let donor = if info.in_alphabet(cf) { cf } else { alpha[0] };
            let f = seqs::reply_frame(id, &Reply { cf: donor, marker: 9 });
            rc::apdu(cf, rc::frame_body(&f))
        }
        // a long valid body (extended APDU header, multi-byte BER lengths)
        4 => {
            let donor = if info.in_alphabet(cf) { cf } else { alpha[0] };
            let f = seqs::reply_frame(id, &Reply { cf: donor, marker: 7 + 8 * (rng.below(30) as u8) });
            rc::apdu(cf, rc::frame_body(&f))
        }
        2 => {
            let donor = *alpha.iter().find(|a| **a != cf).unwrap_or(&alpha[0]);
            let donor = if alpha.len() == 1 { seqs::CF_STATUS } else { donor };
            let f = seqs::reply_frame(id, &Reply { cf: donor, marker: 4 });
            rc::apdu(cf, rc::frame_body(&f))
        }
        _ => {
            let n = rng.usize_below(12);
            // avoid the BER bytes 0x82 which would only re-find C02's findings
            let body: Vec<u8> = (0..n).map(|_| rng.next_u64() as u8).collect();
            rc::apdu(cf, &body)
        }
    }
}

fn frame_for_marker(id: SeqId, cf: Cf, marker: u8) -> Vec<u8> {
    let info = seqs::info(id);
    let donor = if info.in_alphabet(cf) { cf } else { info.alphabet()[0] };
    let f = seqs::reply_frame(id, &Reply { cf: donor, marker });
    rc::apdu(cf, rc::frame_body(&f))
}

fn plan_for(id: SeqId, cf: Cf, kind: u8, at_ack: bool, rng: &mut Rng) -> ExPlan {
    let mut p = ExPlan::clean(id, InParams::fixed(), vec![]);
    let f = frame_for(id, cf, kind, rng);
    if at_ack {
        // the acknowledgement itself is parsed by a reply enum (io::Ack)
        // 80 00 with a non-empty body is neither clearly positive nor negative: not judged
        p.ack = if kind == 0 || cf == seqs::CF_ACK { rc::apdu(cf, &[]) } else { f };
        p.replies = vec![rc::completion()];
        if seqs::info(id).id == SeqId::GetSystemInfo {
            p.replies = vec![seqs::reply_frame(id, &Reply { cf: seqs::CF_COMPLETION, marker: 2 })];
        }
    } else {
        // behind it a valid final packet (consumed iff `f` was a valid non-final one)
        let fin = seqs::reply_frame(id, &Reply { cf: seqs::info(id).finals[0], marker: 2 });
        p.replies = vec![f, fin];
    }
    p.mode = if kind % 2 == 0 { Mode::Eager } else { Mode::Lockstep };
    // how the reply reaches the parser must not matter: whole reads, single bytes, PRNG chunks
    p.sched = match rng.below(4) {
        0 | 1 => crate::conn::Sched::whole(),
        2 => crate::conn::Sched::one_byte(),
        _ => crate::conn::Sched::random(rng),
    };
    // sentinel behind everything
    p.tail = rc::ACK.to_vec();
    p.fault = "cf_sweep".into();
    p
}

/// The reply parser called directly (it is a public trait method: a transport other than
/// `PacketTransport`, or a faulty one, may hand it a buffer that disagrees with its own length
/// field): `replies[0]` is the buffer. It must never panic; fewer than two bytes or a control field
/// outside the reply set is an error; otherwise the result is exactly what the variant's packet
/// type decodes from the very same buffer on its own (an error if that fails).
fn run_seam(plan: &ExPlan, want_trace: bool) -> RunOut {
    let mut out = RunOut::new();
    let info = seqs::info(plan.seq);
    let buf = &plan.replies[0];
    let sig = format!("{}/parser_seam", info.name);
    let mut h = crate::rng::Hasher64::default();
    h.str(info.name);
    h.bytes(buf);
    out.trace_hash = h.finish();
    out.shape = out.trace_hash;
    out.nontrivial = true;
    if want_trace {
        out.trace = vec![format!("{}::zvt_parse({})", info.name, crate::conn::hex(buf))];
    }
    out.stats.hit("probe.parser_called_directly");
    let got = match seqs::library_parse_debug(plan.seq, buf) {
        Ok(g) => g,
        Err((loc, msg)) => {
            out.fail("panic", format!("{}@{}", info.name, crate::framework::panic_sig(&loc, &msg)), format!("reply parser panicked on the {}-byte buffer {} at {loc}: {msg}", buf.len(), crate::conn::hex(buf)));
            return out;
        }
    };
    let in_set = buf.len() >= 2 && (info.in_alphabet((buf[0], buf[1])) || seqs::library_extends_reply_set(plan.seq, buf));
    if !in_set {
        if let Some(g) = got {
            out.fail("extra_item", sig, format!("buffer {} (shorter than two bytes or outside the reply set) was parsed as {g}", crate::conn::hex(buf)));
        }
        return out;
    }
    let own = seqs::own_decodes(buf);
    match got {
        // refusing a damaged buffer is always acceptable here (valid packets are judged through the transport)
        None => {}
        Some(g) => {
            if seqs::item_matches_own_decode(&g, buf) == Some(false) {
                out.fail("item_content", sig, format!("reply parser returned {g} for buffer {}, its packet type decodes the same buffer as {:?}", crate::conn::hex(buf), own));
            }
        }
    }
    out
}

/// Buffers for the parser seam: a valid frame with bytes appended, cut at every length, with its
/// length byte edited; the empty buffer and single bytes.
fn seam_buffers(id: SeqId) -> Vec<Vec<u8>> {
    let mut v: Vec<Vec<u8>> = vec![vec![], vec![0x06], vec![0x04], vec![0x80], vec![0x00], vec![0xff]];
    for cf in seqs::info(id).alphabet() {
        for marker in [2u8, 3] {
            let f = seqs::reply_frame(id, &Reply { cf, marker });
            if f.len() > 64 {
                continue;
            }
            for tail in [&[0x27u8, 0x05][..], &[0x06, 0x0f, 0x00], &[0x00], &[0x06, 0x02, 0x4c, 0x00]] {
                let mut b = f.clone();
                b.extend_from_slice(tail);
                v.push(b);
            }
            for cut in 0..f.len() {
                v.push(f[..cut].to_vec());
            }
            if f.len() > 3 {
                let mut b = f.clone();
                b[2] = b[2].wrapping_add(1);
                v.push(b);
                let mut b = f.clone();
                b[2] = b[2].wrapping_sub(1);
                v.push(b);
            }
            v.push(vec![cf.0, cf.1]);
            v.push(vec![cf.0, cf.1, 0x00, 0x27, 0x05]);
        }
    }
    v.sort();
    v.dedup();
    v
}

fn quick_cfs(id: SeqId) -> Vec<Cf> {
    let info = seqs::info(id);
    let mut v = crate::c06::foreign_cfs(id);
    v.extend(info.alphabet());
    let mut rng = Rng::new(0xC15 ^ id as u64);
    for _ in 0..2000 {
        v.push((rng.next_u64() as u8, rng.next_u64() as u8));
    }
    v.sort();
    v.dedup();
    v
}

impl Check for C15 {
    type Plan = ExPlan;
    fn id(&self) -> &'static str {
        "C15"
    }
    fn level(&self) -> &'static str {
        "fault_enumeration"
    }

    fn families(&self, tier: Tier, _seed: u64) -> Vec<Family<ExPlan>> {
        let mut fams = vec![];
        // long valid bodies for every control field of every alphabet (and its neighbours)
        {
            let mut list: Vec<(SeqId, Cf)> = vec![];
            for id in ALL_SEQS {
                for cf in seqs::info(id).alphabet() {
                    list.push((id, cf));
                    list.push((id, (cf.0, cf.1.wrapping_add(1))));
                }
            }
            let n = list.len() as u64;
            fams.push(Family::new("long_bodies_extended_header", n * 30, true, move |i, rng| {
                let (id, cf) = list[(i / 30) as usize];
                let mut p = plan_for(id, cf, 4, false, rng);
                // fixed marker per index so that the family is an enumeration
                let f = frame_for_marker(id, cf, 7 + 8 * ((i % 30) as u8));
                p.replies[0] = f;
                p
            }));
        }
        // the parser seam: buffers that disagree with their own length field, handed to zvt_parse directly
        {
            let mut list: Vec<(SeqId, Vec<u8>)> = vec![];
            for id in ALL_SEQS {
                for b in seam_buffers(id) {
                    list.push((id, b));
                }
            }
            let n = list.len() as u64;
            fams.push(Family::new("parser_called_directly_with_inconsistent_buffers", n, true, move |i, _| {
                let (id, b) = &list[i as usize];
                let mut p = ExPlan::clean(*id, InParams::fixed(), vec![b.clone()]);
                p.fault = "parser_seam".into();
                p
            }));
        }
        // the connection ends inside a reply: at every byte of a valid packet of every alphabet
        {
            let mut list: Vec<(SeqId, Cf, u32)> = vec![];
            for id in ALL_SEQS {
                for cf in seqs::info(id).alphabet() {
                    let f = seqs::reply_frame(id, &Reply { cf, marker: 3 });
                    for at in 0..f.len().min(40) as u32 {
                        list.push((id, cf, at));
                    }
                }
            }
            let n = list.len() as u64;
            fams.push(Family::new("connection_ends_inside_a_reply_at_every_byte", n, true, move |i, rng| {
                let (id, cf, at) = list[i as usize];
                let mut p = plan_for(id, cf, 1, false, rng);
                p.replies[0] = seqs::reply_frame(id, &Reply { cf, marker: 3 });
                // 3 = the terminal's acknowledgement in front of the reply
                p.cut = Some((3 + at, if i % 3 == 0 { crate::conn::CloseKind::Reset } else { crate::conn::CloseKind::Eof }));
                p.fault = "eof".into();
                p
            }));
        }
        // the terminal pauses (11 s, 61 s) inside a valid reply - after 1, 2, 3, 4 bytes and inside the
        // body: the packet that comes out in the end is the one that was sent (or the exchange was given
        // up with one error), never another kind of reply
        {
            let mut list: Vec<(SeqId, Cf, u32, u32)> = vec![];
            for id in ALL_SEQS {
                for cf in seqs::info(id).alphabet() {
                    let f = seqs::reply_frame(id, &Reply { cf, marker: 3 });
                    for at in [1u32, 2, 3, 4, (f.len() as u32).saturating_sub(1)] {
                        if at > 0 && (at as usize) < f.len() {
                            for gap in [11_000u32, 61_000] {
                                list.push((id, cf, at, gap));
                            }
                        }
                    }
                }
            }
            let n = list.len() as u64;
            fams.push(Family::new("terminal_pauses_inside_a_reply", n, true, move |i, rng| {
                let (id, cf, at, gap) = list[i as usize];
                let mut p = plan_for(id, cf, 1, false, rng);
                p.replies[0] = seqs::reply_frame(id, &Reply { cf, marker: 3 });
                p.mode = Mode::Paced;
                p.sched = crate::conn::Sched::whole();
                // 3 = the acknowledgement in front
                p.paced_cuts = vec![3 + at];
                p.paced_gaps_ms = vec![0, gap];
                p
            }));
        }
        // the smallest and the most decorated legal form of every reply (empty texts and containers; a
        // payment's status information with card number, track 2, names; aborts and intermediate
        // statuses with a TLV container behind them): what comes out is what the packet type decodes
        {
            let mut list: Vec<(SeqId, Cf, u8)> = vec![];
            for id in ALL_SEQS {
                for cf in seqs::info(id).alphabet() {
                    for marker in [6u8, 14, 22, 30, 46, 62] {
                        list.push((id, cf, marker));
                    }
                }
            }
            let n = list.len() as u64;
            fams.push(Family::new("smallest_and_most_decorated_legal_forms", n, true, move |i, rng| {
                let (id, cf, marker) = list[i as usize];
                let mut p = plan_for(id, cf, 1, false, rng);
                p.replies[0] = seqs::reply_frame(id, &Reply { cf, marker });
                p
            }));
        }
        // one read fails with a transient error (EINTR, EAGAIN, ETIMEDOUT) at every byte of a reply that is
        // followed by a second reply and the final packet: the library carries on where it was, or the
        // exchange fails there - it never hands out a packet pieced together from the wrong bytes
        {
            let mut list: Vec<(SeqId, Cf, u32)> = vec![];
            for id in ALL_SEQS {
                for cf in seqs::info(id).alphabet() {
                    let f = seqs::reply_frame(id, &Reply { cf, marker: 3 });
                    let ats: Vec<u32> = if f.len() <= 24 { (0..=f.len() as u32).collect() } else { vec![0, 1, 2, 3, 4, 5, 6, f.len() as u32 / 2, f.len() as u32 - 1, f.len() as u32] };
                    for at in ats {
                        list.push((id, cf, at));
                    }
                }
            }
            let n = list.len() as u64;
            fams.push(Family::new("transient_read_error_at_every_byte_of_a_reply", n * 3, true, move |i, rng| {
                let (id, cf, at) = list[(i / 3) as usize];
                let mut p = plan_for(id, cf, 1, false, rng);
                p.replies[0] = seqs::reply_frame(id, &Reply { cf, marker: 3 });
                p.sched = if i % 2 == 0 { crate::conn::Sched::whole() } else { crate::conn::Sched::one_byte() };
                // 3 = the acknowledgement in front
                p.read_errs = vec![(3 + at, (i % 3) as u8)];
                p.fault = "read_err".into();
                p
            }));
        }
        match tier {
            Tier::Thorough => {
                fams.push(Family::new(
                    "all_65536_control_fields_x_17_parsers_x_4_bodies",
                    17 * 65536 * 4,
                    true,
                    |i, rng| {
                        let kind = (i % 4) as u8;
                        let cf = ((i / 4) % 65536) as u16;
                        let id = ALL_SEQS[(i / 4 / 65536) as usize];
                        plan_for(id, ((cf >> 8) as u8, cf as u8), kind, false, rng)
                    },
                ));
                fams.push(Family::new(
                    "all_65536_control_fields_at_ack_point",
                    65536 * 2,
                    true,
                    |i, rng| {
                        let kind = (i % 2) as u8;
                        let cf = (i / 2) as u16;
                        plan_for(SeqId::Initialization, ((cf >> 8) as u8, cf as u8), kind, true, rng)
                    },
                ));
            }
            Tier::Quick => {
                let mut list: Vec<(SeqId, Cf)> = vec![];
                for id in ALL_SEQS {
                    for cf in quick_cfs(id) {
                        list.push((id, cf));
                    }
                }
                let n = list.len() as u64;
                let l2 = list.clone();
                fams.push(Family::new(
                    "alphabet_neighbours_and_2000_prng_control_fields_x_4_bodies",
                    n * 4,
                    false,
                    move |i, rng| {
                        let (id, cf) = l2[(i / 4) as usize];
                        plan_for(id, cf, (i % 4) as u8, false, rng)
                    },
                ));
                // class byte exhaustive x instr of the ack, and vice versa, at the ack point
                fams.push(Family::new("ack_point_class_and_instr_sweeps", (256 * 2 + 256) * 2, true, |i, rng| {
                    let kind = (i % 2) as u8;
                    let j = i / 2;
                    let cf = if j < 256 {
                        (j as u8, 0x00)
                    } else if j < 512 {
                        (0x80, (j - 256) as u8)
                    } else {
                        // (c, ff) for every class: carries into the next class byte
                        ((j - 512) as u8, 0xff)
                    };
                    plan_for(SeqId::ReadCard, cf, kind, true, rng)
                }));
            }
        }
        fams
    }

    fn run(&self, plan: &ExPlan, want_trace: bool) -> RunOut {
        if plan.fault == "parser_seam" {
            return run_seam(plan, want_trace);
        }
        run_and_judge(plan, want_trace)
    }

    fn shrink(&self, plan: &ExPlan) -> Vec<ExPlan> {
        shrink_explan(plan)
    }

    fn rule_text(&self) -> String {
        "one run = one real sequence whose terminal answers with one well-framed reply of control field (c,i) and body in {empty, valid for the target variant, valid for another variant, PRNG}, delivered whole, byte by byte or in PRNG chunks with spurious Pending; thorough: all 65,536 (c,i) x 17 reply parsers x 4 bodies plus all 65,536 at the acknowledgement point (io::Ack); quick: alphabet, its +-1 neighbours, class-only / instr-only matches, other replies' control fields and 2,000 PRNG pairs per parser; also: the reply parser called directly with buffers that disagree with their own length field (trailing bytes, every truncation, edited length, 0 and 1 byte), and the connection ending at every byte inside a valid reply; oracle: in the command's reply set and decodable by the packet type on its own -> Ok with exactly that content (Debug equality), else exactly one Err and no acknowledgement; distinct = hash of (sequence, control field, model outcome)".into()
    }
    fn assumptions(&self) -> Vec<String> {
        vec![
            "reply-alphabet table of DESIGN.md 5.2".into(),
            "content comparator: Debug of the library's stand-alone zvt_deserialize of the same frame by a shipped packet type of that control field".into(),
            "zvt_parse is reached through read_packet, which always passes >= 3 bytes: the clause 'inputs shorter than two bytes' cannot arise on the wire and is not covered".into(),
        ]
    }
    fn components_real(&self) -> Vec<&'static str> {
        vec![
            "zvt_derive zvt_enum generated ZvtParser impls of all 17 reply enums and io::Ack",
            "zvt::sequences::* / zvt::feig::sequences::*",
            "zvt::io::PacketTransport",
        ]
    }
    fn components_stub(&self) -> Vec<&'static str> {
        vec!["connection (SimConn)", "terminal (scripted)", "executor (own poll loop)"]
    }
}
