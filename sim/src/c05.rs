//! C05 — command sequences acknowledge every packet once and stop at the
//! final packet. Workload: every reply script `non-final* final` over each
//! command's alphabet (bounded-exhaustive), PRNG scripts beyond; schedules:
//! lockstep / eager / paced terminal x chunkings x short writes x Pending.
use crate::conn::Sched;
use crate::exchange::{run_and_judge, ExPlan, Mode};
use crate::framework::{Check, Family, RunOut, Tier};
use crate::refcodec as rc;
use crate::rng::Rng;
use crate::seqs::{self, Cf, InParams, Reply, SeqId, ALL_SEQS};
use std::sync::Arc;

pub struct C05;

/// All scripts `non-final^d final` with d <= depth for one sequence.
pub fn scripts(id: SeqId, depth: usize) -> Vec<Vec<Cf>> {
    let info = seqs::info(id);
    let mut out = vec![];
    if info.single_reply {
        for f in info.finals {
            out.push(vec![*f]);
        }
        return out;
    }
    let mut prefixes: Vec<Vec<Cf>> = vec![vec![]];
    for _ in 0..=depth {
        for p in &prefixes {
            for f in info.finals {
                let mut s = p.clone();
                s.push(*f);
                out.push(s);
            }
        }
        let mut next = vec![];
        for p in &prefixes {
            for nf in info.non_final {
                let mut s = p.clone();
                s.push(*nf);
                next.push(s);
            }
        }
        prefixes = next;
        if prefixes.is_empty() {
            break;
        }
    }
    out
}

pub fn frames_for(id: SeqId, script: &[Cf], marker_base: u8) -> Vec<Vec<u8>> {
    script
        .iter()
        .enumerate()
        .map(|(i, cf)| {
            seqs::reply_frame(
                id,
                &Reply {
                    cf: *cf,
                    marker: marker_base.wrapping_add((i as u8).wrapping_mul(17)).wrapping_add(1),
                },
            )
        })
        .collect()
}

/// Bytes queued behind the final packet: the start of a next exchange, junk, nothing.
pub fn random_tail(rng: &mut Rng) -> Vec<u8> {
    match rng.below(6) {
        0 => vec![],
        1 => rc::ACK.to_vec(),
        2 => rc::completion(),
        3 => {
            let n = 1 + rng.usize_below(9);
            rng.bytes(n)
        }
        4 => {
            let mut t = rc::intermediate(0x55, None);
            t.extend(rc::abort(0x6c, rc::AbortExtra::None));
            t
        }
        _ => vec![0x04, 0x0f, 0xff],
    }
}

/// Stalls of the terminal in paced mode: mostly none; otherwise from a millisecond to an hour of
/// virtual time, on both sides of plausible timer values (5 s, 60 s).
pub fn random_paced_gaps(rng: &mut Rng) -> Vec<u32> {
    if rng.pct(60) {
        return vec![];
    }
    (0..1 + rng.usize_below(3)).map(|_| *rng.pick(&[0u32, 1, 900, 4_999, 5_001, 59_000, 61_000, 3_600_000])).collect()
}

pub fn random_paced_cuts(rng: &mut Rng, len: usize) -> Vec<u32> {
    let n = 1 + rng.usize_below(6);
    (0..n).map(|_| rng.below(len as u64 + 1) as u32).collect()
}

fn sched_variant(k: u64) -> Sched {
    match k {
        0 => Sched::whole(),
        _ => Sched::one_byte(),
    }
}

/// C05 ranges over the 17 `Sequence` impls and the firmware upload.
#[derive(Clone, Debug, PartialEq, serde::Serialize, serde::Deserialize)]
pub enum C05Plan {
    Seq(ExPlan),
    Upload(crate::c11::C11Plan),
}

impl Check for C05 {
    type Plan = C05Plan;
    fn id(&self) -> &'static str {
        "C05"
    }
    fn level(&self) -> &'static str {
        "exploration"
    }

    fn families(&self, tier: Tier, seed: u64) -> Vec<Family<C05Plan>> {
        let mut out: Vec<Family<C05Plan>> = seq_families(tier, seed)
            .into_iter()
            .map(|f| {
                let make = f.make;
                Family {
                    name: f.name,
                    count: f.count,
                    exhaustive: f.exhaustive,
                    make: Box::new(move |i, rng| C05Plan::Seq(make(i, rng))),
                }
            })
            .collect();
        // the firmware upload: same terminal, same rules, answers are data blocks
        let n = match tier {
            Tier::Quick => 10_000,
            Tier::Thorough => 200_000,
        };
        out.push(Family::new("firmware_upload_scripts", n, false, |_, rng| {
            C05Plan::Upload(crate::c11::random_plan(rng, 4096))
        }));
        out
    }

    fn run(&self, plan: &C05Plan, want_trace: bool) -> RunOut {
        match plan {
            C05Plan::Seq(p) => run_and_judge(p, want_trace),
            C05Plan::Upload(p) => crate::c11::run_plan(p, want_trace),
        }
    }

    fn shrink(&self, plan: &C05Plan) -> Vec<C05Plan> {
        match plan {
            C05Plan::Seq(p) => shrink_explan(p).into_iter().map(C05Plan::Seq).collect(),
            C05Plan::Upload(p) => crate::c11::C11.shrink(p).into_iter().map(C05Plan::Upload).collect(),
        }
    }



    fn rule_text(&self) -> String {
        "one run = one real Sequence::into_stream (17 impls) or the real WriteFile::into_stream (firmware upload, payload directory and request script from the PRNG, see C11) over a SimConn against a scripted terminal; scripts non-final^d final over the command's reply alphabet (bounded-exhaustive) and PRNG scripts to depth 40, x terminal mode (lockstep/eager/paced) x read chunking x short writes x Pending; distinct = hash of (sequence, mode, control-field list, outcome class, schedule class); non-trivial = mode != lockstep or a non-whole schedule".into()
    }
    fn assumptions(&self) -> Vec<String> {
        vec![
            "reply-alphabet table of DESIGN.md 5.2 (which control fields may follow each command and which are final)".into(),
            "reference framing/codec of /verif/sim/src/refcodec.rs (self-tested against the captured blobs)".into(),
            "item content is compared with the library's own stand-alone decode of the same frame".into(),
        ]
    }
    fn components_real(&self) -> Vec<&'static str> {
        vec![
            "zvt::sequences::* (17 Sequence::into_stream)",
            "zvt::feig::sequences::WriteFile::into_stream",
            "zvt::io::PacketTransport",
            "zvt_derive generated parsers/serialisers",
            "zvt_builder codec",
            "tokio::io read_exact/write_all",
        ]
    }
    fn components_stub(&self) -> Vec<&'static str> {
        vec!["connection (SimConn)", "terminal (scripted)", "executor (own poll loop, no clock needed)"]
    }
    fn expected_probes(&self) -> Vec<&'static str> {
        vec!["sched.partial_read", "sched.spurious_pending", "sched.short_write"]
    }
}


/// The families over the 17 `Sequence` impls.
fn seq_families(tier: Tier, _seed: u64) -> Vec<Family<ExPlan>> {
        let depth = match tier {
            Tier::Quick => 3,
            Tier::Thorough => 4,
        };
        let mut all: Vec<(SeqId, Vec<Cf>)> = vec![];
        for id in ALL_SEQS {
            for s in scripts(id, depth) {
                all.push((id, s));
            }
        }
        let all = Arc::new(all);
        let n = all.len() as u64;
        let mut fams = vec![];
        let a = all.clone();
        // every script x {lockstep, eager, paced} x {whole, one byte}
        fams.push(Family::new("exhaustive_scripts", n * 6, true, move |i, rng| {
            let (id, script) = &a[(i / 6) as usize];
            let k = i % 6;
            let mut plan = ExPlan::clean(*id, InParams::fixed(), frames_for(*id, script, (i % 200) as u8));
            plan.wellformed = true;
            plan.mode = [Mode::Lockstep, Mode::Eager, Mode::Paced][(k % 3) as usize];
            plan.sched = sched_variant(k / 3);
            plan.tail = if k % 2 == 0 { rc::ACK.to_vec() } else { vec![0x06, 0x0f] };
            if plan.mode == Mode::Paced {
                let len = plan.stream().len();
                plan.paced_cuts = random_paced_cuts(rng, len);
                plan.paced_gaps_ms = random_paced_gaps(rng);
            }
            plan
        }));
        // one transient write error (EINTR / EAGAIN / ETIMEDOUT) at every byte position of the client's
        // output (command + answers) of a short exchange of every sequence
        {
            let mut list: Vec<(SeqId, u32)> = vec![];
            let script_of = |id: SeqId| -> Vec<Cf> {
                let info = seqs::info(id);
                if info.single_reply {
                    vec![info.finals[0]]
                } else {
                    info.non_final.iter().take(1).copied().chain(std::iter::once(info.finals[0])).collect()
                }
            };
            for id in ALL_SEQS {
                let p = ExPlan::clean(id, InParams::fixed(), frames_for(id, &script_of(id), 3));
                let n = crate::exchange::execute(&p).handle.written().len() as u32;
                for off in 0..n {
                    list.push((id, off));
                }
            }
            let n = list.len() as u64;
            fams.push(Family::new("transient_write_error_at_every_byte_of_the_output", n * 3, true, move |i, _| {
                let (id, off) = list[(i / 3) as usize];
                let mut p = ExPlan::clean(id, InParams::fixed(), frames_for(id, &script_of(id), 3));
                p.write_err = Some((off, (i % 3) as u8));
                p.fault = "write_err".into();
                p
            }));
        }
        // byte-identical packets in a row: for every sequence and every non-final packet of its alphabet,
        // the packet two and three times, then the final one
        {
            let mut cases: Vec<(SeqId, Cf, u8)> = vec![];
            for id in ALL_SEQS {
                let info = seqs::info(id);
                if info.single_reply {
                    continue;
                }
                for nf in info.non_final {
                    for times in [2u8, 3] {
                        cases.push((id, *nf, times));
                    }
                }
            }
            let n = cases.len() as u64 * 3;
            fams.push(Family::new("identical_packets_in_a_row", n, true, move |i, _| {
                let (id, nf, times) = cases[(i / 3) as usize];
                let one = frames_for(id, &[nf], 40 + (i % 7) as u8).remove(0);
                let fin = frames_for(id, &[seqs::info(id).finals[0]], 2).remove(0);
                let mut replies: Vec<Vec<u8>> = (0..times).map(|_| one.clone()).collect();
                replies.push(fin);
                let mut plan = ExPlan::clean(id, InParams::fixed(), replies);
                plan.mode = [Mode::Lockstep, Mode::Eager, Mode::Paced][(i % 3) as usize];
                if plan.mode == Mode::Paced {
                    plan.paced_cuts = vec![5, 11];
                }
                plan.tail = rc::ACK.to_vec();
                plan
            }));
        }
        // the terminal stalls at every byte position of the first packets of an exchange (inside the
        // acknowledgement, inside each header, inside a body, between packets)
        {
            let mut cases: Vec<(SeqId, Vec<Cf>, u32, u32)> = vec![];
            for id in ALL_SEQS {
                let info = seqs::info(id);
                let mut script: Vec<Cf> = vec![];
                if !info.single_reply {
                    if let Some(nf) = info.non_final.first() {
                        script.push(*nf);
                    }
                }
                script.push(info.finals[0]);
                let len = ExPlan::clean(id, InParams::fixed(), frames_for(id, &script, 3)).stream().len() as u32;
                for pos in 1..len.min(20) {
                    for gap in [4_999u32, 5_001, 61_000] {
                        cases.push((id, script.clone(), pos, gap));
                    }
                }
            }
            let n = cases.len() as u64;
            fams.push(Family::new("terminal_stalls_at_every_byte_position", n, true, move |i, _| {
                let (id, script, pos, gap) = &cases[i as usize];
                let mut plan = ExPlan::clean(*id, InParams::fixed(), frames_for(*id, script, 3));
                plan.wellformed = true;
                plan.mode = Mode::Paced;
                plan.paced_cuts = vec![*pos];
                plan.paced_gaps_ms = vec![0, *gap];
                plan.tail = rc::ACK.to_vec();
                plan
            }));
        }
        let count = match tier {
            Tier::Quick => 300_000,
            Tier::Thorough => 8_000_000,
        };
        fams.push(Family::new("random_scripts", count, false, move |_i, rng| random_plan(rng, 40)));
        fams
}

pub fn random_plan(rng: &mut Rng, max_depth: usize) -> ExPlan {
    let id = *rng.pick(&ALL_SEQS);
    let info = seqs::info(id);
    let mut script = vec![];
    if !info.single_reply && !info.non_final.is_empty() {
        let d = if rng.pct(70) {
            rng.usize_below(6)
        } else {
            rng.usize_below(max_depth + 1)
        };
        for _ in 0..d {
            script.push(*rng.pick(info.non_final));
        }
    }
    script.push(*rng.pick(info.finals));
    let input = if rng.pct(50) {
        InParams::fixed()
    } else {
        InParams::random(rng)
    };
    let mut plan = ExPlan::clean(id, input, frames_for(id, &script, rng.next_u64() as u8));
    plan.wellformed = true;
    // a terminal may well send the same packet twice in a row (the same status, a blank print line):
    // each is a packet of its own - acknowledged, handed over
    if rng.pct(15) && plan.replies.len() > 1 {
        let k = rng.usize_below(plan.replies.len() - 1);
        let dup = plan.replies[k].clone();
        let times = 1 + rng.usize_below(2);
        for _ in 0..times {
            plan.replies.insert(k, dup.clone());
        }
    }
    plan.mode = *rng.pick(&[Mode::Lockstep, Mode::Eager, Mode::Paced]);
    plan.sched = Sched::random(rng);
    plan.tail = random_tail(rng);
    if rng.pct(4) {
        // an acknowledgement that carries data (short or extended form)
        let n = *rng.pick(&[1usize, 2, 3, 16, 254, 255, 300]);
        plan.ack = rc::apdu((0x80, 0x00), &rng.bytes(n));
        plan.fault = "ack_with_data".into();
    }
    if plan.mode == Mode::Paced {
        let len = plan.stream().len();
        plan.paced_cuts = random_paced_cuts(rng, len);
        plan.paced_gaps_ms = random_paced_gaps(rng);
    } else if plan.fault.is_empty() && rng.pct(4) {
        // one read fails with a transient error somewhere in the stream: carried on, or failed there
        let len = (plan.stream().len() - plan.tail.len()) as u64;
        plan.read_errs = vec![(rng.below(len + 1) as u32, rng.below(3) as u8)];
        plan.fault = "read_err".into();
    } else if plan.fault.is_empty() && rng.pct(4) {
        // one write fails transiently somewhere in the client's output (command or an answer), after a
        // short write if it falls inside a frame
        let out_len = 9 + 3 * plan.replies.len() as u64;
        plan.write_err = Some((rng.below(out_len + 8) as u32, rng.below(3) as u8));
        plan.fault = "write_err".into();
    }
    plan
}

pub fn shrink_explan(plan: &ExPlan) -> Vec<ExPlan> {
    let mut out = vec![];
    let mut push = |p: ExPlan| {
        if p != *plan && crate::exchange::well_formed(&p) {
            out.push(p)
        }
    };
    // simpler schedule first
    let mut p = plan.clone();
    p.sched = Sched::whole();
    push(p);
    let mut p = plan.clone();
    p.sched.read_pending_pct = 0;
    p.sched.write_pending_pct = 0;
    push(p);
    let mut p = plan.clone();
    p.sched.write_mode = crate::conn::ChunkMode::Whole;
    push(p);
    let mut p = plan.clone();
    p.sched.read_mode = crate::conn::ChunkMode::Whole;
    push(p);
    if !plan.paced_gaps_ms.is_empty() {
        let mut p = plan.clone();
        p.paced_gaps_ms.clear();
        push(p);
    }
    if !plan.read_errs.is_empty() {
        let mut p = plan.clone();
        p.read_errs.clear();
        push(p);
    }
    if let Some((off, k)) = plan.write_err {
        if off > 0 {
            let mut p = plan.clone();
            p.write_err = Some((off / 2, k));
            push(p);
        }
    }
    if plan.mode != Mode::Lockstep {
        let mut p = plan.clone();
        p.mode = Mode::Lockstep;
        p.paced_cuts.clear();
        p.paced_gaps_ms.clear();
        push(p);
    }
    if plan.mode == Mode::Paced {
        let mut p = plan.clone();
        p.mode = Mode::Eager;
        p.paced_cuts.clear();
        p.paced_gaps_ms.clear();
        push(p);
    }
    // drop replies (not the last one), keeping cut offsets meaningful only if no cut
    if plan.cut.is_none() {
        for i in 0..plan.replies.len().saturating_sub(1) {
            let mut p = plan.clone();
            p.replies.remove(i);
            // keep the "malformed by construction" marks on the same frames
            p.malformed_replies.retain(|m| *m as usize != i);
            for m in p.malformed_replies.iter_mut() {
                if *m as usize > i {
                    *m -= 1;
                }
            }
            push(p);
        }
    }
    if !plan.tail.is_empty() {
        let mut p = plan.clone();
        p.tail.clear();
        push(p);
    }
    if plan.input != InParams::fixed() {
        let mut p = plan.clone();
        p.input = InParams::fixed();
        push(p);
    }
    out
}
