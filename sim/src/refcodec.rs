//! Independent reference codec for the packets that travel on the simulated
//! wire. Hand-written from the ZVT 13.x BMP table and the Feig cVEND manual;
//! does not use zvt_builder / zvt_derive. It is the simulated terminal's eyes
//! and mouth and the oracle's yardstick — an oracle component, not a check of
//! the library's codec over all types.

// ---------------------------------------------------------------- scalars

/// Packed BCD, most significant digit first, left padded with zeros.
pub fn bcd(mut v: u64, width: usize) -> Vec<u8> {
    let mut out = vec![0u8; width];
    for i in (0..width).rev() {
        let lo = (v % 10) as u8;
        v /= 10;
        let hi = (v % 10) as u8;
        v /= 10;
        out[i] = (hi << 4) | lo;
    }
    out
}

/// Decodes packed BCD; `None` if a nibble is not a decimal digit.
pub fn bcd_val(b: &[u8]) -> Option<u64> {
    let mut v: u64 = 0;
    for x in b {
        let hi = x >> 4;
        let lo = x & 0xf;
        if hi > 9 || lo > 9 {
            return None;
        }
        v = v.checked_mul(100)?.checked_add((hi * 10 + lo) as u64)?;
    }
    Some(v)
}

// ---------------------------------------------------------------- APDU

pub fn apdu(cf: (u8, u8), body: &[u8]) -> Vec<u8> {
    let mut out = Vec::with_capacity(body.len() + 5);
    out.push(cf.0);
    out.push(cf.1);
    if body.len() < 255 {
        out.push(body.len() as u8);
    } else {
        assert!(body.len() <= 65535);
        out.push(0xff);
        out.push((body.len() & 0xff) as u8);
        out.push((body.len() >> 8) as u8);
    }
    out.extend_from_slice(body);
    out
}

/// Header length and body length of the frame starting at `buf[0]`, if the
/// header is complete.
pub fn frame_dims(buf: &[u8]) -> Option<(usize, usize)> {
    if buf.len() < 3 {
        return None;
    }
    if buf[2] != 0xff {
        return Some((3, buf[2] as usize));
    }
    if buf.len() < 5 {
        return None;
    }
    Some((5, buf[3] as usize | (buf[4] as usize) << 8))
}

/// Removes and returns the first complete frame of `buf`.
pub fn take_frame(buf: &mut Vec<u8>) -> Option<Vec<u8>> {
    let (h, l) = frame_dims(buf)?;
    if buf.len() < h + l {
        return None;
    }
    let rest = buf.split_off(h + l);
    let frame = std::mem::replace(buf, rest);
    Some(frame)
}

pub fn frame_cf(frame: &[u8]) -> (u8, u8) {
    (frame[0], frame[1])
}

pub fn frame_body(frame: &[u8]) -> &[u8] {
    let (h, l) = frame_dims(frame).expect("complete frame");
    &frame[h..h + l]
}

pub const ACK: [u8; 3] = [0x80, 0x00, 0x00];

pub fn nack(code: u8) -> Vec<u8> {
    vec![0x84, code, 0x00]
}

// ---------------------------------------------------------------- BER-TLV

pub fn ber_len(n: usize) -> Vec<u8> {
    if n < 128 {
        vec![n as u8]
    } else if n < 256 {
        vec![0x81, n as u8]
    } else {
        assert!(n <= 65535);
        vec![0x82, (n >> 8) as u8, (n & 0xff) as u8]
    }
}

pub fn parse_ber_len(b: &[u8]) -> Option<(usize, usize)> {
    match *b.first()? {
        n @ 0..=127 => Some((n as usize, 1)),
        0x81 => Some((*b.get(1)? as usize, 2)),
        0x82 => Some((((*b.get(1)? as usize) << 8) | *b.get(2)? as usize, 3)),
        _ => None,
    }
}

pub fn tag_bytes(tag: u16) -> Vec<u8> {
    if tag > 0xff {
        vec![(tag >> 8) as u8, tag as u8]
    } else {
        vec![tag as u8]
    }
}

fn parse_tag(b: &[u8]) -> Option<(u16, usize)> {
    let t = *b.first()?;
    if t & 0x1f == 0x1f {
        Some((((t as u16) << 8) | *b.get(1)? as u16, 2))
    } else {
        Some((t as u16, 1))
    }
}

/// Tags whose value is itself a list of TLV objects (ZVT chapter 9 / cVEND 6).
const CONSTRUCTED: &[u16] = &[0x25, 0x2d, 0x34, 0x60, 0x62, 0xe4, 0xe9];

#[derive(Clone, Debug, PartialEq, Eq, PartialOrd, Ord)]
pub enum TlvVal {
    Prim(Vec<u8>),
    Cons(Vec<Tlv>),
}

#[derive(Clone, Debug, PartialEq, Eq, PartialOrd, Ord)]
pub struct Tlv {
    pub tag: u16,
    pub val: TlvVal,
}

impl Tlv {
    pub fn prim(tag: u16, v: &[u8]) -> Tlv {
        Tlv {
            tag,
            val: TlvVal::Prim(v.to_vec()),
        }
    }
    pub fn cons(tag: u16, v: Vec<Tlv>) -> Tlv {
        Tlv {
            tag,
            val: TlvVal::Cons(v),
        }
    }
    pub fn encode(&self) -> Vec<u8> {
        let body = match &self.val {
            TlvVal::Prim(v) => v.clone(),
            TlvVal::Cons(c) => enc_tlvs(c),
        };
        let mut out = tag_bytes(self.tag);
        out.extend(ber_len(body.len()));
        out.extend(body);
        out
    }
    pub fn prim_val(&self) -> Option<&[u8]> {
        match &self.val {
            TlvVal::Prim(v) => Some(v),
            _ => None,
        }
    }
    pub fn children(&self) -> &[Tlv] {
        match &self.val {
            TlvVal::Cons(c) => c,
            _ => &[],
        }
    }
    /// Sorts children recursively (order of TLV objects carries no meaning).
    pub fn canon(mut self) -> Tlv {
        if let TlvVal::Cons(c) = self.val {
            let mut c: Vec<Tlv> = c.into_iter().map(|t| t.canon()).collect();
            c.sort();
            self.val = TlvVal::Cons(c);
        }
        self
    }
}

pub fn enc_tlvs(ts: &[Tlv]) -> Vec<u8> {
    ts.iter().flat_map(|t| t.encode()).collect()
}

pub fn dec_tlvs(mut b: &[u8]) -> Option<Vec<Tlv>> {
    let mut out = Vec::new();
    while !b.is_empty() {
        let (tag, tu) = parse_tag(b)?;
        let (len, lu) = parse_ber_len(&b[tu..])?;
        let start = tu + lu;
        if b.len() < start + len {
            return None;
        }
        let val = &b[start..start + len];
        let val = if CONSTRUCTED.contains(&tag) {
            TlvVal::Cons(dec_tlvs(val)?)
        } else {
            TlvVal::Prim(val.to_vec())
        };
        out.push(Tlv { tag, val });
        b = &b[start + len..];
    }
    Some(out)
}

pub fn find<'a>(ts: &'a [Tlv], tag: u16) -> Option<&'a Tlv> {
    ts.iter().find(|t| t.tag == tag)
}

pub fn find_path<'a>(ts: &'a [Tlv], path: &[u16]) -> Option<&'a Tlv> {
    let (first, rest) = path.split_first()?;
    let t = find(ts, *first)?;
    if rest.is_empty() {
        Some(t)
    } else {
        find_path(t.children(), rest)
    }
}

// ---------------------------------------------------------------- BMPs

#[derive(Clone, Copy, Debug, PartialEq, Eq)]
pub enum Style {
    Fixed(usize),
    Llvar,
    Lllvar,
    Ber,
}

/// BMP number -> length style (ZVT 13.x chapter 8 "List of bitmaps").
pub fn bmp_style(n: u8) -> Option<Style> {
    use Style::*;
    Some(match n {
        0x01 | 0x02 | 0x03 | 0x05 => Fixed(1),
        0x04 => Fixed(6),
        0x06 => Ber,
        0x0b | 0x0c => Fixed(3),
        0x0d | 0x0e | 0x17 => Fixed(2),
        0x19 => Fixed(1),
        0x22 | 0x23 => Llvar,
        0x24 => Lllvar,
        0x27 => Fixed(1),
        0x29 => Fixed(4),
        0x2a => Fixed(15),
        0x2d => Llvar,
        0x2e => Lllvar,
        0x37 => Fixed(3),
        0x3a => Fixed(2),
        0x3b => Fixed(8),
        0x3c => Lllvar,
        0x3d => Fixed(3),
        0x49 => Fixed(2),
        0x60 => Lllvar,
        0x87 => Fixed(2),
        0x88 => Fixed(3),
        0x8a => Fixed(1),
        0x8b => Llvar,
        0x8c => Fixed(1),
        0x92 | 0x9a => Lllvar,
        0xa0 => Fixed(1),
        0xa7 => Llvar,
        0xaa => Fixed(3),
        0xaf => Lllvar,
        0xba => Fixed(5),
        0xd0 | 0xd2 | 0xd3 | 0xe0 => Fixed(1),
        0xd1 => Llvar,
        0xfc => Fixed(1),
        _ => return None,
    })
}

fn llvar(n: usize, digits: usize) -> Vec<u8> {
    let mut out = vec![0u8; digits];
    let mut k = n;
    for i in (0..digits).rev() {
        out[i] = 0xf0 | (k % 10) as u8;
        k /= 10;
    }
    assert_eq!(k, 0, "length does not fit LLVAR/LLLVAR");
    out
}

fn parse_llvar(b: &[u8], digits: usize) -> Option<usize> {
    let mut n = 0usize;
    for i in 0..digits {
        let x = *b.get(i)?;
        if x & 0xf0 != 0xf0 || x & 0x0f > 9 {
            return None;
        }
        n = n * 10 + (x & 0xf) as usize;
    }
    Some(n)
}

/// A packet as the reference codec sees it: control field, raw positional
/// prefix, then BMPs as (number, raw value without its length prefix).
#[derive(Clone, Debug, PartialEq, Eq)]
pub struct Pkt {
    pub cf: (u8, u8),
    pub pos: Vec<u8>,
    pub bmps: Vec<(u8, Vec<u8>)>,
}

impl Pkt {
    pub fn new(class: u8, instr: u8) -> Pkt {
        Pkt {
            cf: (class, instr),
            pos: vec![],
            bmps: vec![],
        }
    }
    pub fn pos(mut self, b: &[u8]) -> Pkt {
        self.pos.extend_from_slice(b);
        self
    }
    pub fn raw(mut self, n: u8, v: &[u8]) -> Pkt {
        self.bmps.push((n, v.to_vec()));
        self
    }
    pub fn byte(self, n: u8, v: u8) -> Pkt {
        self.raw(n, &[v])
    }
    pub fn bcd(self, n: u8, v: u64) -> Pkt {
        let w = match bmp_style(n) {
            Some(Style::Fixed(w)) => w,
            _ => panic!("bcd on non-fixed bmp {n:02x}"),
        };
        self.raw(n, &bcd(v, w))
    }
    pub fn tlv(self, ts: &[Tlv]) -> Pkt {
        self.raw(0x06, &enc_tlvs(ts))
    }
    pub fn opt(self, cond: bool, f: impl FnOnce(Pkt) -> Pkt) -> Pkt {
        if cond {
            f(self)
        } else {
            self
        }
    }

    pub fn body(&self) -> Vec<u8> {
        let mut body = self.pos.clone();
        for (n, v) in &self.bmps {
            body.push(*n);
            match bmp_style(*n).expect("known bmp") {
                Style::Fixed(w) => {
                    assert_eq!(v.len(), w, "bmp {n:02x} width");
                }
                Style::Llvar => body.extend(llvar(v.len(), 2)),
                Style::Lllvar => body.extend(llvar(v.len(), 3)),
                Style::Ber => body.extend(ber_len(v.len())),
            }
            body.extend_from_slice(v);
        }
        body
    }

    pub fn encode(&self) -> Vec<u8> {
        apdu(self.cf, &self.body())
    }

    /// Decodes a complete frame of an ECR -> PT command (or an answer).
    pub fn decode(frame: &[u8]) -> Result<Pkt, String> {
        let (h, l) = frame_dims(frame).ok_or("short frame")?;
        if frame.len() != h + l {
            return Err("frame length mismatch".into());
        }
        let cf = (frame[0], frame[1]);
        let body = &frame[h..];
        let npos = positional_len(cf, body)?;
        let pos = body[..npos].to_vec();
        let mut rest = &body[npos..];
        let mut bmps = Vec::new();
        while !rest.is_empty() {
            let n = rest[0];
            let style = bmp_style(n).ok_or(format!("unknown bmp {n:02x}"))?;
            let (len, used) = match style {
                Style::Fixed(w) => (w, 1),
                Style::Llvar => (
                    parse_llvar(&rest[1..], 2).ok_or(format!("bad LLVAR at bmp {n:02x}"))?,
                    3,
                ),
                Style::Lllvar => (
                    parse_llvar(&rest[1..], 3).ok_or(format!("bad LLLVAR at bmp {n:02x}"))?,
                    4,
                ),
                Style::Ber => {
                    let (len, u) =
                        parse_ber_len(&rest[1..]).ok_or(format!("bad BER length at bmp {n:02x}"))?;
                    (len, 1 + u)
                }
            };
            if rest.len() < used + len {
                return Err(format!("bmp {n:02x} truncated"));
            }
            bmps.push((n, rest[used..used + len].to_vec()));
            rest = &rest[used + len..];
        }
        Ok(Pkt { cf, pos, bmps })
    }

    pub fn get(&self, n: u8) -> Option<&[u8]> {
        self.bmps.iter().find(|(k, _)| *k == n).map(|(_, v)| &v[..])
    }
    pub fn get_bcd(&self, n: u8) -> Option<u64> {
        bcd_val(self.get(n)?)
    }
    pub fn get_byte(&self, n: u8) -> Option<u8> {
        self.get(n).and_then(|v| v.first().copied())
    }
    pub fn tlvs(&self) -> Option<Vec<Tlv>> {
        dec_tlvs(self.get(0x06)?)
    }
    pub fn count(&self, n: u8) -> usize {
        self.bmps.iter().filter(|(k, _)| *k == n).count()
    }

    /// Order-insensitive form: BMPs sorted, TLV container parsed and sorted.
    pub fn canon(&self) -> Result<CanonPkt, String> {
        let mut bmps = Vec::new();
        for (n, v) in &self.bmps {
            if *n == 0x06 {
                let mut ts: Vec<Tlv> = dec_tlvs(v)
                    .ok_or("undecodable TLV container")?
                    .into_iter()
                    .map(|t| t.canon())
                    .collect();
                ts.sort();
                bmps.push((*n, CanonVal::Tlv(ts)));
            } else {
                bmps.push((*n, CanonVal::Raw(v.clone())));
            }
        }
        bmps.sort();
        Ok(CanonPkt {
            cf: self.cf,
            pos: self.pos.clone(),
            bmps,
        })
    }
}

#[derive(Clone, Debug, PartialEq, Eq, PartialOrd, Ord)]
pub enum CanonVal {
    Raw(Vec<u8>),
    Tlv(Vec<Tlv>),
}

#[derive(Clone, Debug, PartialEq, Eq)]
pub struct CanonPkt {
    pub cf: (u8, u8),
    pub pos: Vec<u8>,
    pub bmps: Vec<(u8, CanonVal)>,
}

/// Length of the positional (untagged) prefix of a command body.
fn positional_len(cf: (u8, u8), body: &[u8]) -> Result<usize, String> {
    let n = body.len();
    let need = |k: usize| -> Result<usize, String> {
        if n >= k {
            Ok(k)
        } else {
            Err(format!("{:02x} {:02x}: body shorter than {k}", cf.0, cf.1))
        }
    };
    match cf {
        // Registration: password(3) config(1) [currency(2)]
        (0x06, 0x00) => {
            need(4)?;
            Ok(if n >= 6 { 6 } else { 4 })
        }
        // cVEND functions: [password(3)] function(2)
        (0x0f, 0xa1) => match n {
            2 => Ok(2),
            5 => Ok(5),
            _ => Err("0f a1: body must be 2 or 5 bytes".into()),
        },
        (0x06, 0x1b) | (0x06, 0x93) | (0x06, 0x50) | (0x08, 0x14) => need(3),
        (0x06, 0xc0) => need(1),
        (0x08, 0x30) => need(1),
        // Status enquiry: [password(3)]
        (0x05, 0x01) => Ok(if n >= 3 && body[0] != 0x03 && body[0] != 0x06 { 3 } else { 0 }),
        // Abort: result code [currency(2), ZVT 2.2.9] - then BMP 87 (2.10.1) or a TLV container
        (0x06, 0x1e) => need(1).map(|_| if n >= 3 && body[1] != 0x87 && body[1] != 0x06 { 3 } else { 1 }),
        // Intermediate status: status [timeout] [TLV container]
        (0x04, 0xff) => need(1).map(|_| {
            let container_at = |k: usize| n > k + 1 && body[k] == 0x06 && parse_ber_len(&body[k + 1..]).map(|(l, u)| k + 1 + u + l == n).unwrap_or(false);
            if container_at(1) {
                1
            } else {
                n.min(2)
            }
        }),
        _ => Ok(0),
    }
}

// ---------------------------------------------------------------- PT -> ECR packets

pub fn completion() -> Vec<u8> {
    vec![0x06, 0x0f, 0x00]
}

/// Completion of a Registration as captured: status byte, terminal id, currency.
pub fn completion_with(status: Option<u8>, terminal_id: Option<u64>, currency: Option<u64>) -> Vec<u8> {
    let mut p = Pkt::new(0x06, 0x0f);
    if let Some(s) = status {
        p = p.byte(0x19, s);
    }
    if let Some(t) = terminal_id {
        p = p.bcd(0x29, t);
    }
    if let Some(c) = currency {
        p = p.bcd(0x49, c);
    }
    p.encode()
}

#[derive(Clone, Copy, Debug, PartialEq, Eq)]
pub enum AbortExtra {
    None,
    /// BMP 87 with a BCD receipt number.
    Receipt(u16),
    /// BMP 87 `FF FF`: nothing pending.
    NoneMarker,
}

pub fn abort(code: u8, extra: AbortExtra) -> Vec<u8> {
    let mut body = vec![code];
    match extra {
        AbortExtra::None => {}
        AbortExtra::Receipt(r) => {
            body.push(0x87);
            body.extend(bcd(r as u64, 2));
        }
        AbortExtra::NoneMarker => body.extend([0x87, 0xff, 0xff]),
    }
    apdu((0x06, 0x1e), &body)
}

pub fn intermediate(status: u8, timeout: Option<u8>) -> Vec<u8> {
    let mut body = vec![status];
    if let Some(t) = timeout {
        body.extend(bcd(t as u64, 1));
    }
    apdu((0x04, 0xff), &body)
}

pub fn print_line(attr: u8, text: &[u8]) -> Vec<u8> {
    let mut body = vec![attr];
    body.extend_from_slice(text);
    apdu((0x06, 0xd1), &body)
}

pub fn print_text_block(receipt_type: u8, lines: &[Vec<u8>]) -> Vec<u8> {
    let lines: Vec<Tlv> = lines.iter().map(|l| Tlv::prim(0x07, l)).collect();
    let ts = vec![Tlv::prim(0x1f07, &[receipt_type]), Tlv::cons(0x25, lines)];
    Pkt::new(0x06, 0xd3).tlv(&ts).encode()
}

pub fn set_time_and_date(yymmdd: u64, hhmmss: u64) -> Vec<u8> {
    Pkt::new(0x04, 0x01)
        .bcd(0xaa, yymmdd)
        .bcd(0x0c, hhmmss)
        .encode()
}

/// cVEND "Request for data" (6.13): 2D { 1D id, 1E offset }.
pub fn request_for_data(id: Option<u8>, offset: Option<u32>, container: bool, tlv: bool) -> Vec<u8> {
    if !tlv {
        return apdu((0x04, 0x0c), &[]);
    }
    let mut inner = Vec::new();
    if let Some(id) = id {
        inner.push(Tlv::prim(0x1d, &[id]));
    }
    if let Some(off) = offset {
        inner.push(Tlv::prim(0x1e, &off.to_be_bytes()));
    }
    let ts = if container {
        vec![Tlv::cons(0x2d, inner)]
    } else {
        inner
    };
    Pkt::new(0x04, 0x0c).tlv(&ts).encode()
}

/// cVEND enhanced system information (6.3).
pub fn sysinfo(device_id: &[u8; 8], sw: &[u8; 17], terminal_id: &[u8; 8], temp: &[u8]) -> Vec<u8> {
    assert!(temp.len() == 3 || temp.len() == 4);
    let mut body = Vec::new();
    body.extend_from_slice(device_id);
    body.extend_from_slice(sw);
    body.extend_from_slice(terminal_id);
    body.extend_from_slice(temp);
    apdu((0x06, 0x0f), &body)
}

/// The status-information fields the simulated terminal can report.
#[derive(Clone, Debug, Default, PartialEq, Eq)]
pub struct Status {
    pub result_code: Option<u8>,
    pub amount: Option<u64>,
    pub currency: Option<u64>,
    pub trace: Option<u64>,
    pub time: Option<u64>,
    pub date: Option<u64>,
    pub expiry: Option<u64>,
    pub card_seq: Option<u64>,
    pub card_type: Option<u8>,
    pub terminal_id: Option<u64>,
    pub receipt: Option<u64>,
    pub aid: Option<[u8; 8]>,
    pub vu: Option<[u8; 15]>,
    pub text: Option<Vec<u8>>,
    pub card_name: Option<Vec<u8>>,
    pub zvt_card_type: Option<u8>,
    pub zvt_card_type_id: Option<u8>,
    pub tlv: Option<Vec<Tlv>>,
    /// PAN (BMP 22, LLVAR, packed digits) and track 2 data (BMP 23, LLVAR).
    pub pan: Option<Vec<u8>>,
    pub track2: Option<Vec<u8>>,
    /// Turnover number (BMP 88, three BCD bytes) - always the last BMP on the wire, reversed or
    /// not: the library's packet type does not model it and stops reading there.
    pub turnover: Option<u64>,
    /// Emit BMPs in reverse order (order must not matter).
    pub reversed: bool,
}

pub fn status_info(s: &Status) -> Vec<u8> {
    let mut p = Pkt::new(0x04, 0x0f);
    if let Some(v) = s.result_code {
        p = p.byte(0x27, v);
    }
    if let Some(v) = s.amount {
        p = p.bcd(0x04, v);
    }
    if let Some(v) = s.currency {
        p = p.bcd(0x49, v);
    }
    if let Some(v) = s.trace {
        p = p.bcd(0x0b, v);
    }
    if let Some(v) = s.time {
        p = p.bcd(0x0c, v);
    }
    if let Some(v) = s.date {
        p = p.bcd(0x0d, v);
    }
    if let Some(v) = s.expiry {
        p = p.bcd(0x0e, v);
    }
    if let Some(v) = s.card_seq {
        p = p.bcd(0x17, v);
    }
    if let Some(v) = s.card_type {
        p = p.byte(0x19, v);
    }
    if let Some(v) = s.terminal_id {
        p = p.bcd(0x29, v);
    }
    if let Some(v) = s.receipt {
        p = p.bcd(0x87, v);
    }
    if let Some(v) = &s.aid {
        p = p.raw(0x3b, v);
    }
    if let Some(v) = &s.vu {
        p = p.raw(0x2a, v);
    }
    if let Some(v) = &s.text {
        p = p.raw(0x3c, v);
    }
    if let Some(v) = &s.card_name {
        p = p.raw(0x8b, v);
    }
    if let Some(v) = s.zvt_card_type {
        p = p.byte(0x8a, v);
    }
    if let Some(v) = s.zvt_card_type_id {
        p = p.byte(0x8c, v);
    }
    if let Some(v) = &s.pan {
        p = p.raw(0x22, v);
    }
    if let Some(v) = &s.track2 {
        p = p.raw(0x23, v);
    }
    if let Some(ts) = &s.tlv {
        p = p.tlv(ts);
    }
    if s.reversed {
        p.bmps.reverse();
    }
    if let Some(v) = s.turnover {
        p = p.raw(0x88, &bcd(v, 3));
    }
    p.encode()
}

/// The TLV container of a read-card status: UID `4C`, application list `60 {43, 41}`.
pub fn card_tlv(uid: Option<&[u8]>, apps: Option<&[(Option<Vec<u8>>, Option<Vec<u8>>)]>) -> Vec<Tlv> {
    let mut ts = Vec::new();
    if let Some(uid) = uid {
        ts.push(Tlv::prim(0x4c, uid));
    }
    if let Some(apps) = apps {
        for (aid, ctype) in apps {
            let mut inner = Vec::new();
            if let Some(a) = aid {
                inner.push(Tlv::prim(0x43, a));
            }
            if let Some(c) = ctype {
                inner.push(Tlv::prim(0x41, c));
            }
            ts.push(Tlv::cons(0x60, inner));
        }
    }
    ts
}

// ---------------------------------------------------------------- self test

/// The reference codec must reproduce the captured blobs of the packets in
/// its table bit-exactly (its own self-test; run at start of every check).
pub fn self_test(data_dir: &str) -> Result<usize, String> {
    let read = |name: &str| -> Result<Vec<u8>, String> {
        std::fs::read(format!("{data_dir}/{name}")).map_err(|e| format!("{name}: {e}"))
    };
    let mut n = 0;
    let mut same = |name: &str, mine: Vec<u8>| -> Result<(), String> {
        // a capture that was renamed or removed in the repository is simply not compared
        let Ok(blob) = read(name) else { return Ok(()) };
        if blob != mine {
            return Err(format!(
                "refcodec self-test: {name}\n  blob {}\n  mine {}",
                crate::conn::hex(&blob),
                crate::conn::hex(&mine)
            ));
        }
        n += 1;
        Ok(())
    };
    // ECR -> PT
    same(
        "1680722649.972316000_ecr_pt.blob",
        Pkt::new(0x06, 0xc0)
            .pos(&[15])
            .byte(0x19, 0x10)
            .byte(0xfc, 2)
            .tlv(&[Tlv::prim(0x1f15, &[0xd0]), Tlv::prim(0x1f60, &[7])])
            .encode(),
    )?;
    same(
        "1680728162.033575000_ecr_pt.blob",
        Pkt::new(0x06, 0x22)
            .byte(0x19, 0x40)
            .bcd(0x49, 978)
            .bcd(0x04, 2500)
            .tlv(&[Tlv::cons(
                0xe9,
                vec![Tlv::prim(0x1f62, b"AC"), Tlv::prim(0x1f63, b"384HH2")],
            )])
            .encode(),
    )?;
    same(
        "1680728213.562478000_ecr_pt.blob",
        Pkt::new(0x06, 0x25)
            .byte(0x19, 0x40)
            .bcd(0x87, 231)
            .bcd(0x49, 978)
            .encode(),
    )?;
    same(
        "1680761818.690979000_ecr_pt.blob",
        Pkt::new(0x0f, 0xa1).pos(&[0, 1]).encode(),
    )?;
    same(
        "1681273860.511128000_ecr_pt.blob",
        Pkt::new(0x06, 0x00)
            .pos(&bcd(123456, 3))
            .pos(&[0xde])
            .pos(&bcd(978, 2))
            .encode(),
    )?;
    same(
        "1681282621.302434000_ecr_pt.blob",
        Pkt::new(0x06, 0x50).pos(&bcd(123456, 3)).encode(),
    )?;
    same(
        "1681455683.221609000_ecr_pt.blob",
        Pkt::new(0x06, 0x23)
            .byte(0x19, 0x40)
            .bcd(0x87, 491)
            .bcd(0x49, 978)
            .bcd(0x04, 1295)
            .tlv(&[Tlv::cons(
                0xe9,
                vec![Tlv::prim(0x1f62, b"AC"), Tlv::prim(0x1f63, b"MF2246")],
            )])
            .encode(),
    )?;
    same(
        "change_host_config.blob",
        Pkt::new(0x08, 0x13)
            .tlv(&[Tlv::cons(
                0xe4,
                vec![
                    Tlv::prim(0xff40, &bcd(123456, 3)),
                    Tlv::prim(0xff41, &[213, 183, 19, 105, 0x76, 0xc1, 1]),
                ],
            )])
            .encode(),
    )?;
    // PT -> ECR
    same("1680728162.647465000_pt_ecr.blob", intermediate(0x17, None))?;
    same("1680728165.827009000_pt_ecr.blob", completion())?;
    same(
        "1680761818.641601000_pt_ecr.blob",
        completion_with(Some(0x10), Some(52523535), Some(978)),
    )?;
    same(
        "1680761818.768770000_pt_ecr.blob",
        sysinfo(b"17FD1E3C", b"GER-APP-v2.0.9   ", b"52523535", b"24.4"),
    )?;
    same("partial_reversal.blob", abort(0xb8, AbortExtra::NoneMarker))?;
    same(
        "1682080275.777628000_192.168.0.59_192.168.0.139.blob",
        request_for_data(Some(0x23), Some(65000), true, true),
    )?;
    same(
        "1680728161.963129000_pt_ecr.blob",
        status_info(&Status {
            result_code: Some(0),
            tlv: Some(vec![
                Tlv::prim(0x4c, &[0, 0, 0, 0, 0, 0, 8, 0x1c, 0xa7, 0x2f]),
                Tlv::prim(0x1f45, &[5, 0x78, 0x80, 0x70, 2]),
                Tlv::prim(0x1f4c, &[1]),
                Tlv::prim(0x1f4d, &[0xfe, 4]),
                Tlv::prim(0x1f4f, &[4, 0]),
                Tlv::prim(0x1f50, &[0x20]),
                Tlv::cons(
                    0x60,
                    vec![Tlv::prim(0x43, &[0xa0, 0, 0, 0, 4, 0x10, 0x10])],
                ),
            ]),
            ..Status::default()
        }),
    )?;
    // Decoding side: every captured ECR -> PT blob must decode and re-encode.
    for name in [
        "1680722649.972316000_ecr_pt.blob",
        "1680728162.033575000_ecr_pt.blob",
        "1680728213.562478000_ecr_pt.blob",
        "1680761818.690979000_ecr_pt.blob",
        "1681273860.511128000_ecr_pt.blob",
        "1681282621.302434000_ecr_pt.blob",
        "1681455683.221609000_ecr_pt.blob",
        "change_host_config.blob",
        "1682080275.594788000_192.168.0.139_192.168.0.59.blob",
    ] {
        let Ok(blob) = read(name) else { continue };
        let p = Pkt::decode(&blob).map_err(|e| format!("refcodec decode {name}: {e}"))?;
        if p.encode() != blob {
            return Err(format!("refcodec re-encode {name}"));
        }
        p.canon().map_err(|e| format!("refcodec canon {name}: {e}"))?;
        n += 1;
    }
    Ok(n)
}
