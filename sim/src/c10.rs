//! C10 — no terminal stall or configuration value can hang a client call.
//! Every public operation x a stall (silence) at every emission point of
//! every exchange, handshake and retry connections included, and connects
//! that never complete; read_card_timeout 0..255 exhaustively. Time is
//! tokio's paused clock, so 20 x 60 s budgets cost microseconds.
use crate::c09::{dry_points, workloads};
use crate::cchecks::shrink_client_plan;
use crate::client::{self, ClientPlan, ConnectSpec, OkVal, OpResult, OpSpec};
use crate::framework::{panic_sig, Check, Family, RunOut, Tier};
use crate::model::shape_of;
use crate::pt::*;
use crate::rng::Rng;
use std::sync::Arc;

pub struct C10;

fn judge(plan: &ClientPlan, run: &client::ClientRun, out: &mut RunOut) {
    for o in &run.ops {
        match &o.result {
            OpResult::Panic { loc, msg } => {
                out.fail(
                    "panic",
                    panic_sig(loc, msg),
                    format!("{} panicked at {loc}: {msg} (configuration: {:?})", o.name, plan.cfg),
                );
            }
            OpResult::Hang => {
                // where was the client waiting?
                let pt = run.pt.lock().unwrap();
                let stage = match pt.fired.iter().filter(|f| matches!(f.kind, FaultKind::Silence | FaultKind::StallMid(_) | FaultKind::Junk | FaultKind::StaleAfter(_))).last() {
                    Some(f) => {
                        let hs = matches!(f.during, (0x06, 0x00) | (0x0f, 0xa1)) && f.point <= 4;
                        if hs {
                            "silence_in_handshake".to_string()
                        } else if matches!(f.kind, FaultKind::StaleAfter(_)) {
                            format!("stale_bytes_during_{:02x}{:02x}", f.during.0, f.during.1)
                        } else {
                            format!("silence_during_{:02x}{:02x}", f.during.0, f.during.1)
                        }
                    }
                    None => {
                        if run.connect_log.iter().any(|(_, c)| *c == ConnectSpec::Hang) {
                            "connect_never_completes".to_string()
                        } else if plan.label == "beyond_range" {
                            "configuration_value".to_string()
                        } else {
                            "no_fault".to_string()
                        }
                    }
                };
                out.fail(
                    "hang",
                    stage.clone(),
                    format!(
                        "{} did not return within one virtual day ({}); connections opened: {}, connect attempts: {}",
                        o.name,
                        stage,
                        run.conns.len(),
                        run.connect_attempts
                    ),
                );
            }
            _ => {}
        }
    }
    // W3 (reported, not judged): longest call
    for o in &run.ops {
        let d = o.t_to_ms.saturating_sub(o.t_from_ms);
        out.stats.max("report.max_call_virtual_ms", d);
    }
    out.stats.max("report.max_connect_attempts_per_run", run.connect_attempts as u64);
    if run.connect_attempts >= 20 {
        out.stats.hit("probe.retry_budget_exhausted");
    }
}

/// W2: a terminal that delivers the card just inside the configured time is
/// answered on the first connection.
fn judge_no_collapse(plan: &ClientPlan, run: &client::ClientRun, out: &mut RunOut) {
    let Some(o) = run.ops.iter().find(|o| o.index == 0) else { return };
    if matches!(o.result, OpResult::Panic { .. } | OpResult::Hang) {
        return;
    }
    let reads = run.requests_of(0).iter().filter(|r| (r.frame[0], r.frame[1]) == (0x06, 0xc0)).count();
    // connections opened while read_card itself ran (what Feig::new did before is not its business)
    // (a client that connects lazily opens its first connection here: that is not a reconnect)
    let had_one = run.conns.iter().any(|c| c.opened_seq < o.log_from);
    let opened_during = run.conns.iter().filter(|c| c.opened_seq >= o.log_from && c.opened_seq < o.log_to).count().saturating_sub(if had_one { 0 } else { 1 });
    // (a reconnect as such is C09's business - the client may have had its reasons; a collapsed time-out
    // shows in the card not being read or in the card-reading command going out more than once)
    if !matches!(o.result, OpResult::Ok(OkVal::Membership(_))) || reads != 1 {
        out.fail(
            "timeout_collapsed",
            "read_card",
            format!(
                "read_card_timeout = {}: the terminal delivered the card {} ms after its acknowledgement, yet read_card returned {} after {} reconnect(s) and {} read-card command(s)",
                plan.cfg.read_card_timeout,
                match &plan.ops[0] {
                    OpSpec::ReadCard { card } => card.delay_ms,
                    _ => 0,
                },
                o.result.class(),
                opened_during,
                reads
            ),
        );
    }
    out.stats.hit("probe.no_collapse_checked");
}

fn card(delay_ms: u64) -> OpSpec {
    OpSpec::ReadCard {
        card: CardOutcome {
            pre: 0,
            kind: CardKind::Card {
                uid: Some("04a1b2c3d4e5f6".into()),
                apps: None,
                nested_apps: None,
                no_tlv: false,
            },
            delay_ms,
        },
    }
}

#[derive(Clone, Copy)]
enum Later {
    Healthy,
    /// Every later connection stalls at the same emission point.
    SamePoint,
    /// Every later connection stalls right at its first emission (registration never acknowledged).
    DeadTerminal,
    /// Every later connect never completes.
    ConnectHangs,
}

impl Check for C10 {
    type Plan = ClientPlan;
    fn id(&self) -> &'static str {
        "C10"
    }
    fn level(&self) -> &'static str {
        "fault_enumeration"
    }

    fn families(&self, tier: Tier, _seed: u64) -> Vec<Family<ClientPlan>> {
        let mut fams = vec![];
        let wl = workloads();
        let mut cases: Vec<(usize, u16)> = vec![];
        for (wi, ops) in wl.iter().enumerate() {
            let pts = dry_points(ops, 2);
            for p in 1..=pts {
                cases.push((wi, p));
            }
        }
        let cases = Arc::new(cases);
        let wl = Arc::new(wl);
        {
            let (cases, wl) = (cases.clone(), wl.clone());
            fams.push(Family::new("silence_at_every_emission_point_x_later_behaviour", cases.len() as u64 * 4, true, move |i, _| {
                let (wi, point) = cases[(i / 4) as usize];
                let later = [Later::Healthy, Later::SamePoint, Later::DeadTerminal, Later::ConnectHangs][(i % 4) as usize];
                let mut p = ClientPlan::plain(wl[wi].clone());
                p.cfg.max_tx = 2;
                p.faults = vec![FaultSpec {
                    conn: 0,
                    point,
                    // a stall before the packet, or inside it (alternating with the later-behaviour index)
                    kind: if (i / 4 + i) % 3 == 2 { FaultKind::StallMid(1 + (i % 5) as u16) } else { FaultKind::Silence },
                }];
                match later {
                    Later::Healthy => {}
                    Later::SamePoint => {
                        for c in 1..130 {
                            p.faults.push(FaultSpec {
                                conn: c,
                                point: point.min(8),
                                kind: FaultKind::Silence,
                            });
                        }
                    }
                    Later::DeadTerminal => {
                        // every later connection, for ever, stalls in its handshake
                        p.pt.dead_from_conn = Some(1);
                        p.pt.dead_point = 1 + (point % 4);
                    }
                    Later::ConnectHangs => {
                        p.connects = vec![ConnectSpec::Ok];
                        p.connects_then = ConnectSpec::Hang;
                    }
                }
                p.label = "silence".into();
                p
            }));
        }
        // unsolicited bytes behind every frame the terminal emits (a complete packet, one byte, a
        // header with part of its body, an extended header with ten bytes), connection left open:
        // whatever the client makes of them, the call must come back
        {
            let (cases, wl) = (cases.clone(), wl.clone());
            fams.push(Family::new("stale_bytes_behind_every_frame", cases.len() as u64 * 4, true, move |i, _| {
                let (wi, point) = cases[(i / 4) as usize];
                let mut p = ClientPlan::plain(wl[wi].clone());
                p.cfg.max_tx = 2;
                p.faults = vec![FaultSpec { conn: 0, point, kind: FaultKind::StaleAfter((i % 4) as u8) }];
                p.label = "stale".into();
                p
            }));
        }
        // no stall at all: every form of card data the terminal may report (UIDs of 0..20 bytes, with
        // and without zero padding, application lists) - the call must come back
        {
            let cards = crate::cchecks::all_cards();
            let n = cards.len() as u64;
            fams.push(Family::new("every_card_form_returns", n, true, move |i, _| {
                let c = cards[i as usize].clone();
                let ops = (0..2).map(|k| OpSpec::ReadCard { card: CardOutcome { pre: k, kind: c.clone(), delay_ms: 0 } }).collect();
                let mut p = ClientPlan::plain(ops);
                p.label = "cards".into();
                p
            }));
        }
        // status informations whose TLV data is odd or broken in a way a decoder may trip over: elements
        // with the three- and four-byte BER length forms, elements cut short inside their container,
        // empty and zero-length elements, repeated and deeply nested ones - no stall anywhere
        {
            let mut raws: Vec<String> = vec![
                "6083000002430".to_string() + "0",
                "60830000024300".into(),
                "6084000000024300".into(),
                "60054301".into(),
                "6005430100".into(),
                "4c830000010a".into(),
                "4c8400000001aa".into(),
                "4c81".into(),
                "4c82".into(),
                "4c8200".into(),
                "60".into(),
                "6000".into(),
                "60006000600060006000".into(),
                "600243006002430060024300".into(),
                "6003430141".into(),
                "62066004430141".into(),
                "6281".into(),
                "1f".into(),
                "1f4c".into(),
                "ff".into(),
                "4c00".into(),
                "4c07040102030405066003430100".into(),
                "4c0704010203040506600343".into(),
                "e10a60830000024300".to_string() + "4c0101",
            ];
            for depth in [10usize, 60, 200] {
                let mut inner = "4c0101".to_string();
                for _ in 0..depth {
                    let n = inner.len() / 2;
                    let len = if n < 128 { format!("{n:02x}") } else if n < 256 { format!("81{n:02x}") } else { format!("82{n:04x}") };
                    inner = format!("62{len}{inner}");
                }
                raws.push(inner);
            }
            let n = raws.len() as u64;
            fams.push(Family::new("odd_and_broken_status_tlv_returns", n * 2, true, move |i, _| {
                let c = CardKind::RawTlv(raws[(i % n) as usize].clone());
                let good = CardKind::Card { uid: Some("04a1b2c3d4e5f6".into()), apps: None, nested_apps: None, no_tlv: false };
                let ops = vec![
                    OpSpec::ReadCard { card: CardOutcome { pre: (i / n) as u8, kind: c, delay_ms: 0 } },
                    OpSpec::ReadCard { card: CardOutcome { pre: 0, kind: good, delay_ms: 0 } },
                ];
                let mut p = ClientPlan::plain(ops);
                p.label = "odd_tlv".into();
                p
            }));
        }
        // transactions_max_num at its extremes (0 - which Feig::default() carries -, 1, usize::MAX ...):
        // against a healthy, moderately slow terminal every call that is admitted succeeds on the one
        // connection (no time-out derived from the value collapses to zero) ...
        fams.push(Family::new("transactions_max_num_extremes_healthy_terminal", 7 * 3 * 2, true, |i, _| {
            let wide = [0u64, 1, 2, 255, 65_536, u32::MAX as u64, u64::MAX][(i % 7) as usize];
            let ops = match (i / 7) % 3 {
                0 => vec![OpSpec::Configure { out: ConfigureOutcome::plain() }],
                1 => vec![
                    OpSpec::Begin { token: "A".into(), res: ResOutcome::success() },
                    OpSpec::Commit { token: "A".into(), amount: 100, rev: RevOutcome::success(), cleanup: CleanupSpec::plain() },
                ],
                _ => vec![
                    OpSpec::Begin { token: "A".into(), res: ResOutcome::success() },
                    OpSpec::Cancel { token: "A".into(), rev: RevOutcome::success(), cleanup: CleanupSpec::plain() },
                ],
            };
            let mut p = ClientPlan::plain(ops);
            p.cfg.max_tx_wide = Some(wide);
            p.pt.pace_ms = if i / 21 == 0 { 0 } else { 9_000 };
            p.label = "max_tx".into();
            p
        }));
        // ... and a stall at every emission point still ends every call
        {
            let ops = vec![
                OpSpec::Begin { token: "A".into(), res: ResOutcome::success() },
                OpSpec::Commit { token: "A".into(), amount: 100, rev: RevOutcome::success(), cleanup: CleanupSpec::plain() },
                OpSpec::Configure { out: ConfigureOutcome::plain() },
            ];
            let pts = dry_points(&ops, 1);
            fams.push(Family::new("transactions_max_num_extremes_x_silence_at_every_point", pts as u64 * 3, true, move |i, _| {
                let mut p = ClientPlan::plain(ops.clone());
                p.cfg.max_tx_wide = Some([u64::MAX, 1 << 40, 255][(i % 3) as usize]);
                p.faults = vec![FaultSpec { conn: 0, point: 1 + (i / 3) as u16, kind: FaultKind::Silence }];
                p.label = "max_tx_stall".into();
                p
            }));
        }
        // a terminal that hangs also stops draining its socket: silence at every emission point, and whatever
        // the client still writes on that connection stays pending for ever
        {
            let (cases, wl) = (cases.clone(), wl.clone());
            fams.push(Family::new("silent_terminal_that_stops_reading", cases.len() as u64, true, move |i, _| {
                let (wi, point) = cases[i as usize];
                let mut p = ClientPlan::plain(wl[wi].clone());
                p.cfg.max_tx = 2;
                p.faults = vec![FaultSpec { conn: 0, point, kind: FaultKind::Silence }];
                p.pt.silent_terminal_stops_reading = true;
                p.label = "stops_reading".into();
                p
            }));
        }
        // a terminal (or a bridge in front of it) that closes the connection after every completed
        // command: every call needs a fresh connection per exchange - and still returns
        fams.push(Family::new("terminal_closes_after_every_exchange", 5 * 2, true, {
            let wl = wl.clone();
            move |i, _| {
                let mut p = ClientPlan::plain(wl[(i % 5) as usize].clone());
                p.cfg.max_tx = 2;
                p.pt.close_after_each_exchange = true;
                if i / 5 == 1 {
                    p.faults = vec![FaultSpec { conn: 0, point: 14, kind: FaultKind::Eof }];
                }
                p.label = "close_each".into();
                p
            }
        }));
        // the caller gives a call up (drops its future) while the terminal is silent - in the handshake of a
        // replacement connection, in the middle of an exchange: whatever that leaves behind, the calls that
        // follow on the same client object still return
        {
            let wl2 = wl.clone();
            fams.push(Family::new("call_cancelled_by_the_caller_then_further_calls", 5 * 4 * 3, true, move |i, _| {
                let mut ops = wl2[(i % 5) as usize].clone();
                ops.extend(wl2[((i + 1) % 5) as usize].clone());
                let mut p = ClientPlan::plain(ops);
                p.cfg.max_tx = 2;
                let where_ = (i / 5) % 4;
                let after_ms = [1_000u64, 30_000, 61_500][(i / 20) as usize];
                p.faults = match where_ {
                    // silence in the first exchange of the first call
                    0 => vec![FaultSpec { conn: 0, point: 14, kind: FaultKind::Silence }],
                    // the connection is lost, the handshake of the replacement falls silent (registration / identity)
                    1 => vec![FaultSpec { conn: 0, point: 14, kind: FaultKind::Eof }, FaultSpec { conn: 1, point: 2, kind: FaultKind::Silence }],
                    2 => vec![FaultSpec { conn: 0, point: 14, kind: FaultKind::Eof }, FaultSpec { conn: 1, point: 4, kind: FaultKind::Silence }],
                    // ... or the replacement's connect never completes
                    _ => vec![FaultSpec { conn: 0, point: 14, kind: FaultKind::Eof }],
                };
                if where_ == 3 {
                    p.connects = vec![ConnectSpec::Ok, ConnectSpec::Hang];
                }
                p.cancel_after = vec![(0, after_ms)];
                p.label = "cancelled".into();
                p
            }));
        }
        // connects that never complete, from the start / after k good ones
        fams.push(Family::new("connect_never_completes", 5 * 6, true, {
            let wl = wl.clone();
            move |i, _| {
                let mut p = ClientPlan::plain(wl[(i % 5) as usize].clone());
                p.cfg.max_tx = 2;
                let k = (i / 5) as usize;
                if k == 0 || k == 5 {
                    p.connects_then = ConnectSpec::Hang;
                }
                p.connects = match k {
                    0 => vec![ConnectSpec::Hang; 3],
                    1 => vec![ConnectSpec::Hang],
                    2 => vec![ConnectSpec::Refused, ConnectSpec::Hang],
                    3 => vec![ConnectSpec::DelayMs(59_000)],
                    4 => vec![ConnectSpec::DelayMs(30_000), ConnectSpec::Hang, ConnectSpec::Refused],
                    _ => {
                        vec![ConnectSpec::Refused; 10]
                    }
                };
                p.label = "connect_hang".into();
                p
            }
        }));
        // W2 + overflow: every read_card_timeout value, card just inside the window / at once
        fams.push(Family::new("read_card_timeout_0_255_x_3_arrival_times", 256 * 3, true, |i, _| {
            let tau = (i / 3) as u64;
            let delay = match i % 3 {
                0 => 0,
                1 => (tau * 1000).saturating_sub(1),
                _ => tau * 500,
            };
            let mut p = ClientPlan::plain(vec![card(delay)]);
            p.cfg.read_card_timeout = tau as u8;
            p.label = "tau".into();
            p
        }));
        // every read_card_timeout value with a terminal that never answers the read
        fams.push(Family::new("read_card_timeout_0_255_x_silent_terminal", 256, true, |i, _| {
            let mut p = ClientPlan::plain(vec![card(0), card(0)]);
            p.cfg.read_card_timeout = i as u8;
            // point 13.. are in op 0 (handshake 4 + configure 8): stall the read-card acknowledgement everywhere
            p.faults.push(FaultSpec {
                conn: 0,
                point: 13,
                kind: FaultKind::Silence,
            });
            p.pt.dead_from_conn = Some(1);
            p.pt.dead_point = 5;
            p.label = "tau_silent".into();
            p
        }));
        // configuration extremes on a healthy terminal
        fams.push(Family::new("configuration_extremes", 2 * 2 * 4 * 2, true, {
            let wl = wl.clone();
            move |mut i, _| {
                let mut p = ClientPlan::plain(wl[3].clone());
                p.cfg.pre_auth = [0u64, 999_999_999_999][(i % 2) as usize];
                i /= 2;
                p.cfg.password = [0u32, 999_999][(i % 2) as usize];
                i /= 2;
                p.cfg.max_tx = (i % 4) as u8;
                i /= 4;
                p.cfg.read_card_timeout = [0u8, 255][(i % 2) as usize];
                p.label = "extremes".into();
                p
            }
        }));
        // configuration values beyond what their wire fields can carry (password > 6 digits, amount
        // > 12 digits, currency > 4 digits, terminal id > 8 digits / not a number): the call must still
        // come back with a result or an error - one value out of range at a time, and all together
        fams.push(Family::new("configuration_beyond_wire_range", 5 * (4 + 3 + 3 + 12 + 1), true, {
            let wl = wl.clone();
            move |i, _| {
                let mut p = ClientPlan::plain(wl[(i % 5) as usize].clone());
                p.cfg.max_tx = 2;
                let k = i / 5;
                let pw = [999_999u32, 1_000_000, 99_999_999, u32::MAX];
                let amt = [999_999_999_999u64, 1_000_000_000_000, u64::MAX];
                let cur = [9_999u16, 10_000, u16::MAX];
                let tid = ["99999999", "100000000", "18446744073709551615", "18446744073709551616", "abc", "-1", "1234", "+52500042", "0", "00000001", "0x10", " 7"];
                match k {
                    0..=3 => p.cfg.password = pw[k as usize],
                    4..=6 => p.cfg.pre_auth = amt[(k - 4) as usize],
                    7..=9 => p.cfg.currency = cur[(k - 7) as usize],
                    10..=21 => p.cfg.terminal_id = tid[(k - 10) as usize].into(),
                    _ => {
                        p.cfg.password = u32::MAX;
                        p.cfg.pre_auth = u64::MAX;
                        p.cfg.currency = u16::MAX;
                        p.cfg.terminal_id = "100000000".into();
                    }
                }
                p.label = "beyond_range".into();
                p
            }
        }));
        let n = match tier {
            Tier::Quick => 100_000,
            Tier::Thorough => 2_400_000,
        };
        fams.push(Family::new("random_stalls_and_noise", n, false, |_, rng| random_stall_plan(rng)));
        fams
    }

    fn run(&self, plan: &ClientPlan, want_trace: bool) -> RunOut {
        let mut out = RunOut::new();
        let run = client::run(plan);
        judge(plan, &run, &mut out);
        if plan.label == "tau" {
            judge_no_collapse(plan, &run, &mut out);
        }
        if plan.label == "max_tx" {
            // nothing is wrong with the terminal: what the configuration admits succeeds, at the first attempt
            let admitted = plan.cfg.max_tx_wide.unwrap_or(1) >= 1;
            for o in run.ops.iter().filter(|o| o.index >= 0) {
                let is_tx = !matches!(plan.ops[o.index as usize], OpSpec::Configure { .. });
                if matches!(o.result, OpResult::Panic { .. } | OpResult::Hang) || (is_tx && !admitted) {
                    continue;
                }
                if !o.result.is_ok() {
                    out.fail(
                        "timeout_collapsed",
                        format!("max_tx/{}", o.name),
                        format!("transactions_max_num = {:?}, healthy terminal (every packet {} ms late): {} returned {} ({} connection(s) opened)", plan.cfg.max_tx_wide, plan.pt.pace_ms, o.name, o.result.class(), run.conns.len()),
                    );
                    break;
                }
            }
            out.stats.hit("probe.no_collapse_checked");
        }
        run.add_stats(&mut out.stats);
        out.trace_hash = run.trace_hash();
        let mut h = crate::rng::Hasher64::default();
        h.u64(shape_of(plan, &run));
        h.u64(plan.cfg.read_card_timeout as u64);
        if plan.label == "beyond_range" {
            h.u64(plan.cfg.password as u64);
            h.u64(plan.cfg.pre_auth);
            h.u64(plan.cfg.currency as u64);
            h.bytes(plan.cfg.terminal_id.as_bytes());
        }
        out.shape = h.finish();
        out.nontrivial = !plan.faults.is_empty() || !plan.connects.is_empty() || plan.label == "tau" || plan.label == "beyond_range" || plan.label == "cards" || plan.label.starts_with("max_tx") || plan.label == "close_each" || plan.label == "odd_tlv" || plan.label == "cancelled" || plan.label == "stops_reading";
        if want_trace {
            out.trace = run.trace();
        }
        out
    }

    fn shrink(&self, plan: &ClientPlan) -> Vec<ClientPlan> {
        let mut v = shrink_client_plan(plan);
        // drop the bulk of repeated later-connection faults at once
        if plan.faults.len() > 4 {
            let mut p = plan.clone();
            p.faults.truncate(1);
            v.insert(0, p);
            let mut p = plan.clone();
            p.faults.truncate(3);
            v.insert(1, p);
        }
        if plan.connects.len() > 3 {
            let mut p = plan.clone();
            p.connects.truncate(2);
            v.insert(0, p);
        }
        v
    }

    fn rule_text(&self) -> String {
        "one run = real Feig::new + public calls against a terminal that stalls; enumerated: silence at every emission point of connection 0 (handshake, configure, every exchange of 5 workloads) x later connections {healthy, stall at the same point, dead terminal (stall in the handshake of every later connection), connect never completes}; unsolicited bytes behind every frame (complete packet, one byte, partial header/body), connection left open; connect-hang patterns; read_card_timeout 0..255 x card delivered {at once, 1 ms before the window closes, mid-window} (W2: answered on the first connection) and x a terminal that never answers; configuration extremes and values beyond the width of their wire fields (password, amount, currency, terminal id; also terminal ids that are numbers in another spelling than the eight digits the terminal reports); PRNG stalls with schedule noise; W1: every call returns Ok/Err before the one-virtual-day watchdog and does not panic (overflow checks on); distinct = hash of per-call results/frames/connections, fired faults and read_card_timeout".into()
    }
    fn assumptions(&self) -> Vec<String> {
        vec![
            "the bound itself is reported (max virtual duration per call, connect attempts), not judged: the statement fixes no number".into(),
            "W2 delivers the card strictly inside the configured window (never a tie with a timer)".into(),
            "release build with overflow-checks = true".into(),
        ]
    }
    fn components_real(&self) -> Vec<&'static str> {
        vec![
            "zvt_feig_terminal::stream (retry stream throttle(2 s).take(20), per-packet timeout, handshake)",
            "zvt_feig_terminal::feig::Feig (read_card time-out computation)",
            "tokio time (paused, auto-advance = discrete-event clock)",
        ]
    }
    fn components_stub(&self) -> Vec<&'static str> {
        vec!["TCP socket + connect (SimNet)", "payment terminal (stalling)", "clock (tokio paused)"]
    }
    fn expected_probes(&self) -> Vec<&'static str> {
        vec!["fault.silence", "fault.stale_bytes_after_frame", "fault.connect_hang", "probe.no_collapse_checked", "probe.retry_budget_exhausted"]
    }
}

fn random_stall_plan(rng: &mut Rng) -> ClientPlan {
    let mut p = crate::c09::random_faulty_plan(rng);
    // turn most faults into stalls and add stalls on later connections
    for f in p.faults.iter_mut() {
        if rng.pct(70) {
            f.kind = FaultKind::Silence;
        } else if rng.pct(30) {
            f.kind = FaultKind::StaleAfter(rng.below(4) as u8);
        }
    }
    if rng.pct(40) {
        let from = 1 + rng.below(3) as u16;
        let pt = 1 + rng.below(6) as u16;
        for c in from..130 {
            p.faults.push(FaultSpec {
                conn: c,
                point: pt,
                kind: FaultKind::Silence,
            });
        }
    }
    if rng.pct(25) {
        let at = rng.usize_below(4);
        p.connects = vec![ConnectSpec::Ok; at];
        if rng.pct(50) {
            p.connects.push(ConnectSpec::Hang);
        } else {
            p.connects_then = ConnectSpec::Hang;
        }
    }
    if rng.pct(25) {
        p.pt.dead_from_conn = Some(rng.below(4) as u16);
        p.pt.dead_point = 1 + rng.below(6) as u16;
    }
    p.cfg.read_card_timeout = match rng.below(4) {
        0 => 0,
        1 => 255,
        2 => 254,
        _ => rng.next_u64() as u8,
    };
    p.label = "random".into();
    p
}
