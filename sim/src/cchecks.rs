//! The fault-free-transport checks of the client engine: C07, C08, C18, C19,
//! C20. They share the engine (client.rs) and the reference model
//! (model.rs); each has its own workload and reports the rules of its own
//! property (plus panics/hangs, which are everybody's).
use crate::client::{self, CfgSpec, ClientPlan, ConnectSpec, OpSpec};
use crate::conn::Sched;
use crate::framework::{Check, Family, RunOut, Tier};
use crate::model::{judge_fault_free, judge_under_faults, shape_of};
use crate::pt::*;
use crate::rng::Rng;

pub struct ClientCheck {
    pub id: &'static str,
}

pub fn run_fault_free(id: &'static str, plan: &ClientPlan, want_trace: bool) -> RunOut {
    let mut out = RunOut::new();
    let run = client::run(plan);
    let faulty = !plan.faults.is_empty()
        || plan.connects.iter().any(|c| !matches!(c, client::ConnectSpec::Ok | client::ConnectSpec::DelayMs(_)))
        || crate::c09::serial_mismatch(plan);
    let j = if plan.pt.registration_currency.map(|c| c != plan.cfg.currency).unwrap_or(false) {
        crate::model::judge_currency_only(plan, &run)
    } else if faulty {
        judge_under_faults(plan, &run)
    } else {
        judge_fault_free(plan, &run)
    };
    for (prop, v) in j.v {
        if prop == id || prop == "*" {
            out.violations.push(v);
        }
    }
    out.states = j.states;
    out.stats = j.stats;
    run.add_stats(&mut out.stats);
    out.trace_hash = run.trace_hash();
    out.shape = {
        let mut h = crate::rng::Hasher64::default();
        h.u64(shape_of(plan, &run));
        // value classes count as distinct cases where the property ranges over values
        match id {
            "C08" => {
                let pre = plan.cfg.pre_auth;
                h.u64(pre.checked_ilog10().map(|d| d as u64 + 1).unwrap_or(0));
                h.u64(plan.cfg.currency as u64);
                for op in &plan.ops {
                    match op {
                        OpSpec::Commit { amount, token, .. } => {
                            h.u8(if *amount == 0 { 0 } else if *amount < pre { 1 } else if *amount == pre { 2 } else if *amount < (1 << 63) { 3 } else { 4 });
                            h.u64(token.len().min(70) as u64 / 8);
                            h.u8(token.bytes().any(|b| b >= 0x80) as u8);
                        }
                        OpSpec::Begin { token, .. } => h.u64(token.len().min(70) as u64 / 8),
                        _ => {}
                    }
                }
            }
            "C18" => {
                for op in &plan.ops {
                    if let OpSpec::ReadCard { card } = op {
                        match &card.kind {
                            CardKind::Abort(c) => {
                                h.u8(1);
                                h.u8(*c)
                            }
                            CardKind::Card { uid, apps, no_tlv, .. } => {
                                h.u8(2);
                                h.u64(uid.as_ref().map(|u| u.len() as u64 + 1).unwrap_or(0));
                                h.u8(uid.as_ref().map(|u| u.starts_with("000000") as u8 + 2 * u[u.len().saturating_sub(14)..].starts_with("000000") as u8).unwrap_or(9));
                                match apps {
                                    None => h.u8(0),
                                    Some(a) => {
                                        h.u8(1 + a.len() as u8);
                                        for x in a {
                                            h.u8(x.aid.is_some() as u8 * 2 + x.ctype.is_some() as u8);
                                        }
                                    }
                                }
                                h.u8(*no_tlv as u8);
                            }
                            CardKind::RawTlv(x) => {
                                h.u8(3);
                                h.str(x)
                            }
                        }
                        h.u8(card.pre);
                    }
                }
            }
            _ => {}
        }
        h.finish()
    };
    out.nontrivial = !plan.ops.is_empty();
    if want_trace {
        out.trace = run.trace();
    }
    out
}

// ---------------------------------------------------------------- generators

pub const TOKENS3: [&str; 3] = ["A", "B", ""];
pub const TOKENS5: [&str; 5] = ["A", "B", "C", "D", ""];
/// Tokens that differ late, in letter case, or in white space only: each is a token of its own.
pub const TOKENS_NEAR: [&str; 8] = [
    "charge-point-0042/session-0001",
    "charge-point-0042/session-0002",
    "charge-point-0042/session-00010",
    "a",
    "A",
    "A ",
    " A",
    "",
];

fn res_variant(k: u64) -> ResOutcome {
    match k % 3 {
        0 => ResOutcome::success(),
        1 => ResOutcome {
            pre: 1,
            status: StatusMode::WithReceipt,
            prints: 0,
            end: EndSpec::Abort(0x6f),
        },
        _ => ResOutcome {
            pre: 0,
            status: StatusMode::NoReceipt,
            prints: 1,
            end: EndSpec::Completion,
        },
    }
}

fn rev_variant(k: u64) -> RevOutcome {
    match k % 3 {
        0 => RevOutcome::success(),
        1 => RevOutcome {
            pre: 1,
            status: true,
            prints: 1,
            end: EndSpec::Completion,
        },
        _ => RevOutcome {
            pre: 0,
            status: false,
            prints: 0,
            end: EndSpec::Abort(0xb5),
        },
    }
}

pub fn random_res(rng: &mut Rng) -> ResOutcome {
    ResOutcome {
        pre: rng.below(4) as u8,
        status: *rng.pick(&[
            StatusMode::WithReceipt,
            StatusMode::WithReceipt,
            StatusMode::WithReceipt,
            StatusMode::WithReceiptTwice,
            StatusMode::WithThenWithout,
            StatusMode::NoReceipt,
            StatusMode::Absent,
        ]),
        prints: rng.below(3) as u8,
        end: if rng.pct(80) { EndSpec::Completion } else { EndSpec::Abort(rng.next_u64() as u8) },
    }
}

pub fn random_rev(rng: &mut Rng) -> RevOutcome {
    RevOutcome {
        pre: rng.below(3) as u8,
        status: rng.pct(85),
        prints: rng.below(3) as u8,
        end: if rng.pct(80) { EndSpec::Completion } else { EndSpec::Abort(rng.next_u64() as u8) },
    }
}

pub fn random_cleanup(rng: &mut Rng) -> CleanupSpec {
    CleanupSpec {
        pending: *rng.pick(&[PendingSpec::NoneFfff, PendingSpec::NoneFfff, PendingSpec::NoBmp, PendingSpec::Dangling, PendingSpec::Dangling, PendingSpec::DanglingAt(0), PendingSpec::DanglingAt(9999), PendingSpec::DanglingWithList, PendingSpec::DanglingWithOtherList, PendingSpec::DanglingReusing]),
        pending_pre: if rng.pct(20) { 1 + rng.below(2) as u8 } else { 0 },
        cancel: RevOutcome {
            pre: rng.below(3) as u8,
            status: rng.pct(50),
            prints: rng.below(2) as u8,
            end: if rng.pct(15) { EndSpec::Abort(rng.next_u64() as u8) } else { EndSpec::Completion },
        },
        eod: EodOutcome {
            pre: rng.below(3) as u8,
            status: rng.pct(30),
            prints: rng.below(3) as u8,
            end: match rng.below(10) {
                0 => EndSpec::Abort(0xa0),
                1 => EndSpec::Abort(rng.next_u64() as u8),
                _ => EndSpec::Completion,
            },
        },
    }
}

/// Schedule elements are no faults: what the terminal takes for one packet - planned arrival of the
/// card, pacing, the pause inside the packet, schedule noise - must in sum stay well below the client's
/// per-packet time-out (card reading: read_card_timeout + 2 s; everything else: 45 s leaves room for a
/// shorter constant than today's 60 s).
/// Slowness that is no fault must stay below what *any* sensible time-out policy tolerates - the
/// properties fix no time-out values, so a client with 30 s per packet, or with a deadline for a whole
/// card reading, is as good as the pinned one (false-alarm review 2): outside card reading every packet
/// comes within 10 s of the previous one; a card reading as a whole (all its packets, every pause) is
/// over within the configured `read_card_timeout` - the time the terminal itself waits for a card.
pub fn limit_delays(plan: &mut ClientPlan) {
    const PER_PACKET_MS: u64 = 10_000;
    let per_packet = |p: &ClientPlan| p.pt.pace_ms as u64 + p.pt.frame_pause.map(|f| f.1 as u64).unwrap_or(0) + p.max_delay_ms as u64;
    if per_packet(plan) > PER_PACKET_MS {
        plan.pt.pace_ms = plan.pt.pace_ms.min(5_000);
    }
    if per_packet(plan) > PER_PACKET_MS {
        plan.pt.frame_pause = plan.pt.frame_pause.map(|f| (f.0, f.1.min(150), f.2));
        plan.max_delay_ms = plan.max_delay_ms.min(900);
    }
    // an exchange as a whole (all its packets) stays inside 30 s: a deadline over a whole exchange - 60 s,
    // say - is as legitimate as a time-out per packet (false-alarm review 3)
    const PER_EXCHANGE_MS: u64 = 30_000;
    let cleanup_packets = |c: &CleanupSpec| -> u64 {
        let rev = |r: &RevOutcome| r.pre as u64 + 2 + r.prints as u64 + 1;
        (c.pending_pre as u64 + 1).max(rev(&c.cancel)).max(c.eod.pre as u64 + 1 + c.eod.prints as u64 + 1)
    };
    let packets = plan
        .ops
        .iter()
        .map(|o| match o {
            OpSpec::Begin { res, .. } => res.pre as u64 + 2 + res.prints as u64 + 1,
            OpSpec::Commit { rev, cleanup, .. } | OpSpec::Cancel { rev, cleanup, .. } => (rev.pre as u64 + 2 + rev.prints as u64 + 1).max(cleanup_packets(cleanup)),
            OpSpec::Configure { out } => (out.init_pre as u64 + out.init_prints as u64 + 1).max(cleanup_packets(&out.cleanup)),
            OpSpec::ReadCard { .. } => 0,
        })
        .chain(std::iter::once((plan.init.init_pre as u64 + plan.init.init_prints as u64 + 1).max(cleanup_packets(&plan.init.cleanup))))
        .max()
        .unwrap_or(1)
        .max(1);
    if packets * per_packet(plan) > PER_EXCHANGE_MS {
        let room = (PER_EXCHANGE_MS / packets).saturating_sub(plan.pt.frame_pause.map(|f| f.1 as u64).unwrap_or(0));
        plan.max_delay_ms = plan.max_delay_ms.min((room / 4) as u32);
        plan.pt.pace_ms = plan.pt.pace_ms.min(room.saturating_sub(plan.max_delay_ms as u64) as u32);
    }
    // card readings: (non-final packets + final packet) x per-packet slowness + the card's own delay
    let budget = plan.cfg.read_card_timeout as u64 * 1000;
    let total = |p: &ClientPlan| {
        p.ops
            .iter()
            .filter_map(|o| match o {
                OpSpec::ReadCard { card } => Some((card.pre as u64 + 1) * per_packet(p) + card.delay_ms),
                _ => None,
            })
            .max()
            .unwrap_or(0)
    };
    if total(plan) >= budget.max(1) {
        plan.pt.frame_pause = plan.pt.frame_pause.map(|f| (f.0, f.1.min(100), f.2));
    }
    if total(plan) >= budget.max(1) {
        plan.pt.pace_ms = 0;
    }
    if total(plan) >= budget.max(1) {
        plan.pt.frame_pause = None;
        plan.max_delay_ms = plan.max_delay_ms.min(50);
    }
    if total(plan) >= budget.max(1) {
        plan.max_delay_ms = 0;
        plan.delay_pct = 0;
    }
}

pub fn random_transport(plan: &mut ClientPlan, rng: &mut Rng) {
    if rng.pct(60) {
        plan.sched = Sched::random(rng);
    }
    if rng.pct(40) {
        plan.max_delay_ms = *rng.pick(&[1u32, 50, 900, 1900]);
        plan.delay_pct = *rng.pick(&[10u8, 40, 100]);
    }
    plan.sched.seed = rng.next_u64();
    plan.pt.bmp_reversed = rng.pct(30);
    plan.pt.rich_status = rng.pct(30);
    // a slow but healthy terminal: every packet well inside the 60 s per-packet time-out (card reading
    // has its own, shorter one: only histories that read no card are slowed down that much)
    let reads_card = plan.ops.iter().any(|o| matches!(o, OpSpec::ReadCard { .. }));
    if rng.pct(10) {
        plan.pt.pace_ms = if reads_card { *rng.pick(&[500u32, 2_000]) } else { *rng.pick(&[2_000u32, 5_000, 9_000]) };
    }
    // every packet arrives in two pieces with a pause in between
    if rng.pct(10) {
        plan.pt.frame_pause = Some((*rng.pick(&[1u8, 2, 3, 4, 5]), *rng.pick(&[50u32, 100, 150]), rng.below(3) as u8));
    }
    plan.pt.status_codes = if rng.pct(20) { 4 + rng.below(256) as u16 } else { rng.below(4) as u16 };
    plan.pt.script_order = if rng.pct(35) { 1 + rng.below(3) as u8 } else { 0 };
    plan.pt.decorated = if rng.pct(30) { 1 + rng.below(3) as u8 } else { 0 };
    plan.pt.status_shows_abort_code = rng.pct(30);
    plan.pt.eod_abort_receipt = if rng.pct(15) { Some(*rng.pick(&[1u16, 42, 9999])) } else { None };
    plan.pt.intermediate_timeout = if rng.pct(25) { Some(*rng.pick(&[0u8, 1, 30, 99])) } else { None };
    limit_delays(plan);
    plan.pt.abort_extras = if rng.pct(30) { 1 + rng.below(4) as u8 } else { 0 };
    plan.pt.status_currency = if rng.pct(20) { Some(*rng.pick(&[752u16, 826, 978, 840])) } else { None };
    plan.pt.status_seed = rng.next_u64();
    plan.pt.receipt_start = match rng.below(8) {
        0 => 9999,
        1 => 9998,
        2 => 1,
        3 => 9997,
        4 => 231,
        _ => rng.range(1, 9999) as u16,
    };
}

/// Call number `c` (0..3*ntok): begin/commit/cancel x token.
fn call(c: u64, tokens: &[&str], outcome: u64, amount: u64) -> OpSpec {
    let t = tokens[(c / 3) as usize % tokens.len()].to_string();
    match c % 3 {
        0 => OpSpec::Begin {
            token: t,
            res: res_variant(outcome),
        },
        1 => OpSpec::Commit {
            token: t,
            amount,
            rev: rev_variant(outcome),
            cleanup: CleanupSpec::plain(),
        },
        _ => OpSpec::Cancel {
            token: t,
            rev: rev_variant(outcome),
            cleanup: CleanupSpec::plain(),
        },
    }
}

/// History number `i` of the bounded-exhaustive enumeration: every call
/// sequence of length 1..=depth over `tokens`, x max_tx 0..=3, x every
/// outcome combination (3 per call).
fn history_count(ncalls: u64, depth: u32) -> u64 {
    (1..=depth).map(|d| (ncalls * 3).pow(d)).sum::<u64>() * 4
}

fn history_at(mut i: u64, tokens: &[&str], depth: u32) -> ClientPlan {
    let ncalls = tokens.len() as u64 * 3;
    let max_tx = (i % 4) as u8;
    i /= 4;
    let mut d = 1;
    loop {
        let n = (ncalls * 3).pow(d);
        if i < n || d == depth {
            break;
        }
        i -= n;
        d += 1;
    }
    let mut ops = vec![];
    for _ in 0..d {
        let digit = i % (ncalls * 3);
        i /= ncalls * 3;
        ops.push(call(digit / 3, tokens, digit % 3, [1000, 2500, 4000][(digit % 3) as usize]));
    }
    let mut p = ClientPlan::plain(ops);
    p.cfg.max_tx = max_tx;
    p
}

pub fn random_walk(rng: &mut Rng, tokens: &[&str], max_len: usize) -> ClientPlan {
    let n = 1 + rng.usize_below(max_len);
    let mut ops = vec![];
    // bias: prefer calls that are accepted, so that walks reach deep states
    let mut open: Vec<String> = vec![];
    let max_tx = rng.below(4) as u8;
    for _ in 0..n {
        let accept_bias = rng.pct(65);
        let kind = rng.below(3);
        let token = if accept_bias && kind != 0 && !open.is_empty() {
            rng.pick(&open).clone()
        } else if accept_bias && kind == 0 {
            let free: Vec<&&str> = tokens.iter().filter(|t| !open.iter().any(|o| o == **t)).collect();
            if free.is_empty() {
                rng.pick(tokens).to_string()
            } else {
                rng.pick(&free).to_string()
            }
        } else {
            rng.pick(tokens).to_string()
        };
        let op = match kind {
            0 => {
                let res = if rng.pct(75) { ResOutcome::success() } else { random_res(rng) };
                if res.issues_receipt() && !open.contains(&token) && open.len() < max_tx as usize {
                    open.push(token.clone());
                }
                OpSpec::Begin { token, res }
            }
            1 => {
                open.retain(|t| *t != token);
                OpSpec::Commit {
                    token,
                    amount: *rng.pick(&[0u64, 1, 2499, 2500, 2501, 5000, u64::MAX]),
                    rev: if rng.pct(75) { RevOutcome::success() } else { random_rev(rng) },
                    cleanup: random_cleanup(rng),
                }
            }
            _ => {
                open.retain(|t| *t != token);
                OpSpec::Cancel {
                    token,
                    rev: if rng.pct(75) { RevOutcome::success() } else { random_rev(rng) },
                    cleanup: random_cleanup(rng),
                }
            }
        };
        ops.push(op);
    }
    let mut p = ClientPlan::plain(ops);
    p.cfg.max_tx = max_tx;
    random_transport(&mut p, rng);
    p
}

/// Transport faults for a history (the results-only part of the model still applies).
pub fn add_faults(p: &mut ClientPlan, rng: &mut Rng) {
    let nf = 1 + rng.usize_below(3);
    for _ in 0..nf {
        let kind = match rng.below(9) {
            0 => FaultKind::Eof,
            1 => FaultKind::EofMid(rng.below(40) as u16),
            2 => FaultKind::Reset,
            3 => FaultKind::Nack(rng.next_u64() as u8),
            4 => FaultKind::BadBody,
            5 => FaultKind::Silence,
            6 => FaultKind::EpipeAfter,
            7 => FaultKind::StallMid(rng.below(20) as u16),
            _ => FaultKind::Foreign(0x06, 0xd8),
        };
        let conn = if rng.pct(70) { 0 } else { rng.below(4) as u16 };
        // beyond the 12 emission points of Feig::new on connection 0, so that most faults hit the calls
        let point = if conn == 0 { 13 + rng.below(40) as u16 } else { 1 + rng.below(25) as u16 };
        p.faults.push(FaultSpec { conn, point, kind });
    }
    if rng.pct(15) {
        let at = 1 + rng.usize_below(3);
        p.connects = vec![client::ConnectSpec::Ok; at];
        p.connects.push(client::ConnectSpec::Refused);
    }
}

pub fn faulty_walk(rng: &mut Rng, tokens: &[&str], max_len: usize) -> ClientPlan {
    let mut p = random_walk(rng, tokens, max_len);
    add_faults(&mut p, rng);
    p
}

fn cp437_token(rng: &mut Rng) -> String {
    // every CP437 byte except a trailing NUL; decoded through the code page so
    // that the client can encode it back
    // lengths: mostly short; one in eight sits where one of the enclosing TLV lengths
    // (1F63 token, E9 = token + 9, BMP 06 = token + 11) crosses 127/128, 255/256, or is long
    let len = match rng.below(16) {
        0 => 110 + rng.usize_below(22),
        1 => 240 + rng.usize_below(20),
        2 => *rng.pick(&[116usize, 117, 118, 119, 120, 127, 128, 129, 244, 245, 246, 247, 255, 256, 257, 500, 1000, 5000]),
        3 | 4 | 5 => rng.usize_below(65),
        _ => rng.usize_below(12),
    };
    let mut bytes: Vec<u8> = (0..len)
        .map(|_| if rng.pct(50) { rng.range(0x20, 0x7e) as u8 } else { rng.next_u64() as u8 })
        .collect();
    while bytes.last() == Some(&0) {
        bytes.pop();
        if len > 100 {
            // keep the chosen length
            bytes.push(0x41);
        }
    }
    yore::code_pages::CP437.decode(&bytes).to_string()
}

fn digits_amount(rng: &mut Rng) -> u64 {
    match rng.below(8) {
        0 => 0,
        1 => 1,
        2 => 2500,
        3 => 999_999_999_999,
        _ => {
            let d = rng.range(1, 12) as u32;
            rng.below(10u64.pow(d))
        }
    }
}

fn final_amount(rng: &mut Rng, pre: u64) -> u64 {
    match rng.below(11) {
        0 => 0,
        1 => 1,
        2 => pre.saturating_sub(1),
        3 => pre,
        4 => pre + 1,
        5 => pre.saturating_mul(2),
        6 => u64::MAX,
        7 => u64::MAX - 1,
        8 => 1 << 63,
        9 => (1 << 63) - 1 + rng.below(3),
        _ => rng.next_u64() >> rng.below(64),
    }
}

pub fn value_plan(rng: &mut Rng) -> ClientPlan {
    let pre = digits_amount(rng);
    let n_tx = 1 + rng.usize_below(3);
    let mut ops = vec![];
    let mut toks: Vec<String> = vec![];
    for _ in 0..n_tx {
        let mut t = cp437_token(rng);
        while toks.contains(&t) {
            t.push('x');
        }
        toks.push(t.clone());
        ops.push(OpSpec::Begin {
            token: t,
            res: ResOutcome {
                pre: rng.below(3) as u8,
                status: *rng.pick(&[StatusMode::WithReceipt, StatusMode::WithReceiptTwice, StatusMode::WithThenWithout]),
                prints: rng.below(2) as u8,
                end: EndSpec::Completion,
            },
        });
    }
    // finish them in PRNG order
    while !toks.is_empty() {
        let k = rng.usize_below(toks.len());
        let t = toks.remove(k);
        if rng.pct(70) {
            ops.push(OpSpec::Commit {
                token: t,
                amount: final_amount(rng, pre),
                rev: RevOutcome {
                    pre: rng.below(3) as u8,
                    status: true,
                    prints: rng.below(3) as u8,
                    end: EndSpec::Completion,
                },
                cleanup: random_cleanup(rng),
            });
        } else {
            ops.push(OpSpec::Cancel {
                token: t,
                rev: RevOutcome::success(),
                cleanup: random_cleanup(rng),
            });
        }
    }
    // the terminal refuses a commit now and then ("please wait", "receiver not ready", wrong currency, any code)
    if rng.pct(12) {
        for op in ops.iter_mut() {
            if let OpSpec::Commit { rev, .. } = op {
                if rng.pct(50) {
                    rev.end = EndSpec::Abort(*rng.pick(&[0x9cu8, 0xa0, 0x6f, 0xb4, 0x64, 0xff]));
                }
            }
        }
    }
    // a second round with the very same tokens (and, for one of them, the very same final amount): what
    // the client kept from the first round - a receipt number, a summary - must not leak into the second;
    // in that round one reservation comes back without a receipt number (begin must fail, not reuse one)
    if rng.pct(25) {
        let first: Vec<OpSpec> = ops.clone();
        let mut second = first.clone();
        let mut spoiled = false;
        for op in second.iter_mut() {
            if let OpSpec::Begin { res, .. } = op {
                if !spoiled && rng.pct(40) {
                    res.status = *rng.pick(&[StatusMode::NoReceipt, StatusMode::Absent]);
                    spoiled = true;
                }
            }
            if let OpSpec::Commit { amount, .. } = op {
                if rng.pct(50) {
                    *amount = final_amount(rng, pre);
                }
            }
        }
        ops.extend(second);
    }
    // a card is usually read before a transaction begins: whatever the terminal reported about
    // the card (limits, identifiers) must not leak into the reservation / reversal requests
    if rng.pct(50) {
        let mut k = 0;
        while k < ops.len() {
            if matches!(ops[k], OpSpec::Begin { .. }) && rng.pct(60) {
                ops.insert(
                    k,
                    OpSpec::ReadCard {
                        card: CardOutcome {
                            pre: rng.below(3) as u8,
                            kind: random_card(rng),
                            delay_ms: 0,
                        },
                    },
                );
                k += 1;
            }
            k += 1;
        }
    }
    let mut p = ClientPlan::plain(ops);
    p.cfg = CfgSpec {
        pre_auth: pre,
        currency: *rng.pick(&[752u16, 826, 978]),
        password: match rng.below(4) {
            0 => 0,
            1 => 999_999,
            _ => rng.below(1_000_000) as u32,
        },
        max_tx: 3,
        ..CfgSpec::plain()
    };
    random_transport(&mut p, rng);
    p
}

pub fn all_cards() -> Vec<CardKind> {
    let uids: Vec<Option<String>> = vec![
        None,
        Some("".into()),
        Some("00".into()),
        Some("04a1b2c3".into()),
        Some("04a1b2c3d4e5f6".into()),           // 7 bytes = 14 digits
        Some("0004a1b2c3d4e5f6".into()),         // 8 bytes
        Some("000000000000081ca72f".into()),     // 10 bytes, captured
        Some("00000000000000000000".into()),     // all zero
        Some("ffffffffffffffffffff".into()),
        Some("0102030405060708090a0b0c0d0e0f1011121314".into()), // 20 bytes
        Some("000000aabbccddeeff0011".into()),
        Some("aa000000bbccddeeff001122".into()),
        Some("ab00000012345678".into()),
        Some("00000012345678".into()),           // exactly 14, leading zeros kept
        Some("0000000012345678".into()),         // 16 -> last 14 = 00000012345678 -> strip
        Some("ABCDEF0123456789".into()),
    ];
    let aid = |s: &str| App {
        aid: Some(s.into()),
        ctype: None,
    };
    let apps: Vec<Option<Vec<App>>> = vec![
        None,
        Some(vec![]),
        Some(vec![aid("a0000000041010")]),
        Some(vec![App {
            aid: Some("a0000000031010".into()),
            ctype: Some("0005".into()),
        }]),
        Some(vec![App {
            aid: None,
            ctype: Some("0005".into()),
        }]),
        Some(vec![App { aid: None, ctype: None }]),
        Some(vec![
            App {
                aid: None,
                ctype: Some("0001".into()),
            },
            aid("a0000000041010"),
        ]),
        Some(vec![aid("a0000000041010"), aid("d27600002545500200"), aid("a0000003591010028001")]),
        Some(vec![aid("a0000000041010"), App { aid: None, ctype: None }, aid("a00000000410"), aid("a000000004")]),
    ];
    let mut out = vec![];
    for u in &uids {
        for a in &apps {
            out.push(CardKind::Card {
                uid: u.clone(),
                apps: a.clone(),
                nested_apps: None,
                no_tlv: false,
            });
        }
    }
    out.push(CardKind::Card {
        uid: Some("04a1b2c3d4e5f6".into()),
        apps: None,
        nested_apps: None,
        no_tlv: true,
    });
    out
}

fn random_card(rng: &mut Rng) -> CardKind {
    if rng.pct(12) {
        return CardKind::Abort(rng.next_u64() as u8);
    }
    let uid = if rng.pct(12) {
        None
    } else {
        let n = rng.usize_below(21);
        let mut b = rng.bytes(n);
        // leading-zero / all-zero / padded forms
        match rng.below(5) {
            0 => b.iter_mut().for_each(|x| *x = 0),
            1 => {
                for x in b.iter_mut().take(3) {
                    *x = 0
                }
            }
            2 => {
                let k = n.saturating_sub(7);
                for (i, x) in b.iter_mut().enumerate() {
                    if i >= k && i < k + 3 {
                        *x = 0
                    }
                }
            }
            _ => {}
        }
        Some(crate::exchange::hexser::to_hex(&b))
    };
    let apps = match rng.below(5) {
        0 | 1 => None,
        2 => Some(vec![]),
        _ => {
            let n = 1 + rng.usize_below(4);
            Some(
                (0..n)
                    .map(|_| App {
                        aid: if rng.pct(70) {
                            let k = 5 + rng.usize_below(12);
                            Some(crate::exchange::hexser::to_hex(&rng.bytes(k)))
                        } else {
                            None
                        },
                        ctype: if rng.pct(40) { Some(crate::exchange::hexser::to_hex(&rng.bytes(2))) } else { None },
                    })
                    .collect(),
            )
        }
    };
    CardKind::Card {
        uid,
        apps,
        nested_apps: None,
        no_tlv: rng.pct(3),
    }
}

/// One fault of each kind at every emission point (from point 13 on: after handshake and the
/// configure of Feig::new) of each workload; judged with the results-only model under faults.
fn fault_at_every_point(name: &'static str, wl: Vec<Vec<OpSpec>>, kinds: Vec<FaultKind>, max_tx: u8) -> Family<ClientPlan> {
    let mut cases: Vec<(usize, u16, FaultKind)> = vec![];
    for (wi, ops) in wl.iter().enumerate() {
        let pts = crate::c09::dry_points(ops, max_tx);
        for pnt in 13..=pts {
            for k in &kinds {
                cases.push((wi, pnt, *k));
            }
        }
    }
    let n = cases.len() as u64;
    Family::new(name, n, true, move |i, _| {
        let (wi, point, kind) = cases[i as usize];
        let mut p = ClientPlan::plain(wl[wi].clone());
        p.cfg.max_tx = max_tx;
        p.faults = vec![FaultSpec { conn: 0, point, kind }];
        p
    })
}

/// Packets of a reply script in an unusual order / grouping (print packets before the status
/// information, intermediate statuses last, ...): begin - commit | cancel with every script carrying
/// several non-final packets; `i` selects order 1..3 x status form x commit|cancel x dangling or not.
fn unusual_order_plan(mut i: u64) -> ClientPlan {
    let order = 1 + (i % 3) as u8;
    i /= 3;
    let status = [StatusMode::WithReceipt, StatusMode::WithReceiptTwice, StatusMode::WithThenWithout][(i % 3) as usize];
    i /= 3;
    let commit = i % 2 == 0;
    i /= 2;
    let pending = [PendingSpec::NoneFfff, PendingSpec::Dangling, PendingSpec::DanglingWithList][(i % 3) as usize];
    i /= 3;
    let (pre, prints) = [(2u8, 2u8), (3, 1), (1, 3), (0, 3)][(i % 4) as usize];
    let rev = RevOutcome { pre, status: true, prints, end: EndSpec::Completion };
    let cleanup = CleanupSpec {
        pending,
        pending_pre: pre,
        eod: EodOutcome { pre, status: true, prints, end: EndSpec::Completion },
        cancel: RevOutcome { pre, status: true, prints, end: EndSpec::Completion },
    };
    let mut p = ClientPlan::plain(vec![
        OpSpec::Begin { token: "A".into(), res: ResOutcome { pre, status, prints, end: EndSpec::Completion } },
        if commit {
            OpSpec::Commit { token: "A".into(), amount: 700, rev, cleanup }
        } else {
            OpSpec::Cancel { token: "A".into(), rev, cleanup }
        },
    ]);
    p.pt.script_order = order;
    p
}
const UNUSUAL_ORDER_N: u64 = 3 * 3 * 2 * 3 * 4;

/// An earlier transaction was closed (committed or cancelled, end-of-day done); a later clean-up is told of
/// a dangling pre-authorisation that carries the *same receipt number* again (a terminal that restarted
/// its numbering): it is reversed like any other. `i`: first closed by commit|cancel x second x abort of
/// the dangling reversal or not.
fn reused_receipt_plan(i: u64) -> ClientPlan {
    let close = |t: &str, commit: bool, cleanup: CleanupSpec| {
        if commit {
            OpSpec::Commit { token: t.into(), amount: 800, rev: RevOutcome::success(), cleanup }
        } else {
            OpSpec::Cancel { token: t.into(), rev: RevOutcome::success(), cleanup }
        }
    };
    let cancel_end = if (i / 4) % 2 == 0 { EndSpec::Completion } else { EndSpec::Abort(0xb4) };
    let second = CleanupSpec { pending: PendingSpec::DanglingReusing, cancel: RevOutcome { pre: 0, status: false, prints: 0, end: cancel_end }, ..CleanupSpec::plain() };
    ClientPlan::plain(vec![
        OpSpec::Begin { token: "A".into(), res: ResOutcome::success() },
        close("A", i % 2 == 0, CleanupSpec::plain()),
        OpSpec::Begin { token: "B".into(), res: ResOutcome::success() },
        close("B", (i / 2) % 2 == 0, second),
    ])
}

/// End-of-day refused in the long form: the abort names a receipt number behind its result code.
/// `i`: code x named receipt x (commit | cancel | configure).
fn eod_long_refusal_plan(i: u64) -> ClientPlan {
    let code = [0xa0u8, 0xb8, 0x64, 0x9c][(i % 4) as usize];
    let named = [42u16, 9999, 1][((i / 4) % 3) as usize];
    let cleanup = CleanupSpec { eod: EodOutcome { pre: (i % 2) as u8, status: false, prints: 0, end: EndSpec::Abort(code) }, ..CleanupSpec::plain() };
    let ops = match i / 12 {
        0 => vec![OpSpec::Begin { token: "A".into(), res: ResOutcome::success() }, OpSpec::Commit { token: "A".into(), amount: 800, rev: RevOutcome::success(), cleanup }],
        1 => vec![OpSpec::Begin { token: "A".into(), res: ResOutcome::success() }, OpSpec::Cancel { token: "A".into(), rev: RevOutcome::success(), cleanup }],
        _ => vec![OpSpec::Configure { out: ConfigureOutcome { cleanup, ..ConfigureOutcome::plain() } }],
    };
    let mut p = ClientPlan::plain(ops);
    p.pt.eod_abort_receipt = Some(named);
    p
}

/// One public call whose exchange `ex` (0..9) the terminal aborts with `code` after `k`
/// intermediate statuses and `prints` print packets.
fn abort_exchange_plan(ex: u64, code: u8, k: u8, prints: u8) -> ClientPlan {
    let begin = OpSpec::Begin {
        token: "A".into(),
        res: ResOutcome::success(),
    };
    let ab = EndSpec::Abort(code);
    let ops = match ex {
        0 => vec![OpSpec::ReadCard {
            card: CardOutcome {
                pre: k,
                kind: CardKind::Abort(code),
                delay_ms: 0,
            },
        }],
        1 => vec![OpSpec::Begin {
            token: "A".into(),
            res: ResOutcome {
                pre: k,
                status: if k % 2 == 0 { StatusMode::Absent } else { StatusMode::WithReceipt },
                prints,
                end: ab,
            },
        }],
        2 => vec![
            begin,
            OpSpec::Commit {
                token: "A".into(),
                amount: 100,
                rev: RevOutcome {
                    pre: k,
                    status: k % 2 == 1,
                    prints,
                    end: ab,
                },
                cleanup: CleanupSpec::plain(),
            },
        ],
        3 => vec![
            begin,
            OpSpec::Cancel {
                token: "A".into(),
                rev: RevOutcome {
                    pre: k,
                    status: k % 2 == 1,
                    prints,
                    end: ab,
                },
                cleanup: CleanupSpec::plain(),
            },
        ],
        4 | 5 => {
            // end-of-day inside the clean-up of commit (4) / cancel (5)
            let cleanup = CleanupSpec {
                eod: EodOutcome {
                    pre: k,
                    status: k % 2 == 1,
                    prints,
                    end: ab,
                },
                ..CleanupSpec::plain()
            };
            vec![
                begin,
                if ex == 4 {
                    OpSpec::Commit {
                        token: "A".into(),
                        amount: 100,
                        rev: RevOutcome::success(),
                        cleanup,
                    }
                } else {
                    OpSpec::Cancel {
                        token: "A".into(),
                        rev: RevOutcome::success(),
                        cleanup,
                    }
                },
            ]
        }
        6 => vec![OpSpec::Configure {
            out: ConfigureOutcome {
                sysinfo: ab,
                ..ConfigureOutcome::plain()
            },
        }],
        7 => vec![OpSpec::Configure {
            out: ConfigureOutcome {
                set_tid: ab,
                init_pre: k,
                ..ConfigureOutcome::plain()
            },
        }],
        _ => vec![OpSpec::Configure {
            out: ConfigureOutcome {
                init: ab,
                init_pre: k,
                init_prints: prints,
                ..ConfigureOutcome::plain()
            },
        }],
    };
    let mut p = ClientPlan::plain(ops);
    if ex == 7 {
        // make configure send SetTerminalId: configured id differs from the reported one
        p.cfg.terminal_id = "00001234".into();
        // Feig::new's own configure must succeed first, with the terminal keeping its id
        p.init.set_tid = EndSpec::Abort(0x83);
    }
    p
}

// ---------------------------------------------------------------- the checks

impl Check for ClientCheck {
    type Plan = ClientPlan;
    fn id(&self) -> &'static str {
        self.id
    }
    fn level(&self) -> &'static str {
        "exploration"
    }

    fn families(&self, tier: Tier, _seed: u64) -> Vec<Family<ClientPlan>> {
        let mut fams: Vec<Family<ClientPlan>> = vec![];
        match self.id {
            "C07" => {
                fams.push(Family::new("reply_packets_in_unusual_order", UNUSUAL_ORDER_N, true, |i, _| unusual_order_plan(i)));
                // the terminal refuses its initialisation the first one / two / three times it is asked (in
                // Feig::new, and again if the client asks again later): whatever the client does about its
                // configuration, it does it without touching open transactions
                fams.push(Family::new("initialisation_refused_the_first_times", 3 * 4, true, |i, _| {
                    let b = |t: &str| OpSpec::Begin { token: t.into(), res: ResOutcome::success() };
                    let ops = match i / 3 {
                        0 => vec![b("A"), b("B"), OpSpec::Commit { token: "A".into(), amount: 100, rev: RevOutcome::success(), cleanup: CleanupSpec::plain() }, OpSpec::Cancel { token: "B".into(), rev: RevOutcome::success(), cleanup: CleanupSpec::plain() }],
                        1 => vec![b("A"), b("B"), b("C"), OpSpec::Cancel { token: "A".into(), rev: RevOutcome::success(), cleanup: CleanupSpec::plain() }, OpSpec::Commit { token: "C".into(), amount: 100, rev: RevOutcome::success(), cleanup: CleanupSpec::plain() }],
                        2 => vec![b("A"), OpSpec::ReadCard { card: CardOutcome { pre: 0, kind: CardKind::Card { uid: Some("04a1b2c3d4e5f6".into()), apps: None, nested_apps: None, no_tlv: false }, delay_ms: 0 } }, b("B"), OpSpec::Commit { token: "A".into(), amount: 100, rev: RevOutcome::success(), cleanup: CleanupSpec::plain() }],
                        _ => vec![b("A"), OpSpec::Commit { token: "A".into(), amount: 100, rev: RevOutcome::success(), cleanup: CleanupSpec::plain() }, b("A"), b("B"), OpSpec::Cancel { token: "A".into(), rev: RevOutcome::success(), cleanup: CleanupSpec::plain() }],
                    };
                    let mut p = ClientPlan::plain(ops);
                    p.cfg.max_tx = 3;
                    p.pt.init_abort_first_n = 1 + (i % 3) as u8;
                    p
                }));
                // a slow but healthy terminal while the card-reading time is configured short (one reservation,
                // one reversal: their time-outs are not the card reading's)
                fams.push(Family::new("slow_terminal_with_short_card_reading_time", 4 * 2, true, |i, _| {
                    let mut p = ClientPlan::plain(vec![
                        OpSpec::Begin { token: "A".into(), res: ResOutcome { pre: 1, prints: 1, ..ResOutcome::success() } },
                        if i % 2 == 0 {
                            OpSpec::Commit { token: "A".into(), amount: 1200, rev: RevOutcome { pre: 1, status: true, prints: 1, end: EndSpec::Completion }, cleanup: CleanupSpec::plain() }
                        } else {
                            OpSpec::Cancel { token: "A".into(), rev: RevOutcome { pre: 1, status: true, prints: 0, end: EndSpec::Completion }, cleanup: CleanupSpec::plain() }
                        },
                    ]);
                    let (rc, pace) = [(0u8, 4_000u32), (1, 5_000), (3, 7_000), (5, 7_000)][(i / 2) as usize];
                    p.cfg.read_card_timeout = rc;
                    p.pt.pace_ms = pace;
                    p
                }));
                // tokens of every length 0..=300 (the requests that carry them cross the 127/128 and 254/255
                // length switches at different token lengths): begin, then commit or cancel
                fams.push(Family::new("token_of_every_length", 301 * 2, true, |i, _| {
                    let len = (i / 2) as usize;
                    let tok: String = (0..len).map(|k| (b'a' + (k % 26) as u8) as char).collect();
                    let mut p = ClientPlan::plain(vec![
                        OpSpec::Begin { token: tok.clone(), res: ResOutcome::success() },
                        if i % 2 == 0 {
                            OpSpec::Commit { token: tok.clone(), amount: 700, rev: RevOutcome::success(), cleanup: CleanupSpec::plain() }
                        } else {
                            OpSpec::Cancel { token: tok.clone(), rev: RevOutcome::success(), cleanup: CleanupSpec::plain() }
                        },
                        OpSpec::Begin { token: tok, res: ResOutcome::success() },
                    ]);
                    p.cfg.max_tx = 1;
                    p
                }));
                // status informations beyond 254 bytes (extended APDU header) arriving byte by byte and in
                // PRNG pieces: one reservation, one receipt
                fams.push(Family::new("long_status_informations_in_pieces", 4 * 8 * 2, true, |i, rng| {
                    let text = [230u16, 252, 300, 999][(i % 4) as usize];
                    let mut p = ClientPlan::plain(vec![
                        OpSpec::Begin { token: "A".into(), res: ResOutcome { pre: 1, status: if i / 32 == 0 { StatusMode::WithReceipt } else { StatusMode::WithReceiptTwice }, prints: 1, end: EndSpec::Completion } },
                        OpSpec::Commit { token: "A".into(), amount: 100, rev: RevOutcome { pre: 0, status: true, prints: 0, end: EndSpec::Completion }, cleanup: CleanupSpec::plain() },
                    ]);
                    p.pt.long_status_text = text;
                    p.pt.rich_status = i % 8 >= 4;
                    p.sched = match (i / 4) % 8 {
                        0 => Sched::one_byte(),
                        1 => Sched::whole(),
                        k => {
                            let mut s = Sched::random(rng);
                            s.read_mode = crate::conn::ChunkMode::Random([1u16, 2, 3, 4, 5, 7][(k - 2) as usize]);
                            s
                        }
                    };
                    p
                }));
                let depth = match tier {
                    Tier::Quick => 3,
                    Tier::Thorough => 4,
                };
                fams.push(Family::new(
                    "all_histories_3_tokens_x_max_0_3_x_all_outcomes",
                    history_count(9, depth),
                    true,
                    move |i, _| history_at(i, &TOKENS3, depth),
                ));
                if tier == Tier::Thorough {
                    // depth 5 call sequences, outcomes from the PRNG
                    fams.push(Family::new("depth_5_call_sequences_prng_outcomes", 9u64.pow(5) * 4, false, |i, rng| {
                        let mut ops = vec![];
                        let mut k = i / 4;
                        for _ in 0..5 {
                            ops.push(call(k % 9, &TOKENS3, rng.below(3), *rng.pick(&[0u64, 2500, 9999])));
                            k /= 9;
                        }
                        let mut p = ClientPlan::plain(ops);
                        p.cfg.max_tx = (i % 4) as u8;
                        p
                    }));
                }
                let (n, len) = match tier {
                    Tier::Quick => (200_000, 40),
                    Tier::Thorough => (5_000_000, 40),
                };
                {
                    let b = |t: &str, pre: u8, prints: u8| OpSpec::Begin { token: t.into(), res: ResOutcome { pre, status: StatusMode::WithReceipt, prints, end: EndSpec::Completion } };
                    let co = |t: &str| OpSpec::Commit { token: t.into(), amount: 100, rev: RevOutcome { pre: 1, status: true, prints: 1, end: EndSpec::Completion }, cleanup: CleanupSpec::plain() };
                    let ca = |t: &str| OpSpec::Cancel { token: t.into(), rev: RevOutcome::success(), cleanup: CleanupSpec::plain() };
                    let wl = vec![
                        vec![b("A", 1, 1), co("A"), b("A", 0, 0), ca("A")],
                        vec![b("A", 0, 2), ca("A"), b("A", 1, 0), co("A")],
                        vec![b("A", 1, 0), b("B", 0, 1), co("A"), ca("B"), b("B", 0, 0), co("B")],
                    ];
                    let kinds = vec![FaultKind::Eof, FaultKind::Reset, FaultKind::EofMid(2), FaultKind::EpipeAfter, FaultKind::Silence, FaultKind::Nack(0x9c), FaultKind::BadBody];
                    fams.push(fault_at_every_point("fault_at_every_point_of_begin_commit_cancel", wl.clone(), kinds, 2));
                    // the terminal closes the connection while idle, between any two exchanges: the calls that follow
                    // find a dead socket - and still act on their token's receipt
                    fams.push(fault_at_every_point("connection_closed_while_idle_at_every_point", wl, vec![FaultKind::CloseIdle], 2));
                }
                // calls that must be refused without traffic, issued while the client has no connection
                // and the terminal cannot be reached (the previous call used up its retries)
                fams.push(Family::new("refused_calls_while_terminal_unreachable", 4 * 3, true, |i, _| {
                    let card = OpSpec::ReadCard { card: CardOutcome { pre: 0, kind: CardKind::Card { uid: Some("04a1b2c3d4e5f6".into()), apps: None, nested_apps: None, no_tlv: false }, delay_ms: 0 } };
                    let ops = vec![
                        OpSpec::Begin { token: "A".into(), res: ResOutcome::success() },
                        card,
                        OpSpec::Commit { token: "X".into(), amount: 5, rev: RevOutcome::success(), cleanup: CleanupSpec::plain() },
                        OpSpec::Cancel { token: "".into(), rev: RevOutcome::success(), cleanup: CleanupSpec::plain() },
                        OpSpec::Begin { token: "A".into(), res: ResOutcome::success() },
                        OpSpec::Begin { token: "B".into(), res: ResOutcome::success() },
                    ];
                    let mut p = ClientPlan::plain(ops);
                    p.cfg.max_tx = 1;
                    // the read-card exchange loses its connection, every reconnect is refused / hangs / is slow
                    p.faults = vec![FaultSpec { conn: 0, point: 16 + (i % 4) as u16 / 2, kind: [FaultKind::Eof, FaultKind::Reset, FaultKind::Silence, FaultKind::EpipeAfter][(i % 4) as usize] }];
                    p.connects = vec![ConnectSpec::Ok];
                    p.connects_then = [ConnectSpec::Refused, ConnectSpec::Hang, ConnectSpec::Refused][(i / 4) as usize];
                    p
                }));
                // all histories of depth 3 over three tokens that agree in their first 28 characters
                {
                    const LONG3: [&str; 3] = ["charge-point-0042/session-0001", "charge-point-0042/session-0002", "charge-point-0042/session-00010"];
                    fams.push(Family::new("all_histories_depth_3_tokens_with_common_prefix", history_count(9, 3), true, move |i, _| history_at(i, &LONG3, 3)));
                }
                fams.push(Family::new("random_walks_near_identical_tokens", n / 4, false, move |_, rng| random_walk(rng, &TOKENS_NEAR, 16)));
                fams.push(Family::new("random_walks_5_tokens", n, false, move |_, rng| random_walk(rng, &TOKENS5, len)));
                fams.push(Family::new("random_walks_under_transport_faults", n / 2, false, move |_, rng| faulty_walk(rng, &TOKENS5, 12)));
            }
            "C08" => {
                fams.push(Family::new("reply_packets_in_unusual_order", UNUSUAL_ORDER_N, true, |i, _| unusual_order_plan(i)));
                // boundary grid: pre x final, exhaustive over the listed boundary values
                let pres: Vec<u64> = vec![0, 1, 2, 2500, 99_999, 100_000, 999_999_999_998, 999_999_999_999];
                let n = pres.len() as u64 * 9 * 3;
                // the terminal's status information of the reservation reports another amount than the one
                // requested (a partial approval, a tip, a rounding): the release is computed from the
                // *configured* pre-authorisation amount
                fams.push(Family::new("reservation_status_reports_another_amount", 5 * 4, true, |i, _| {
                    let shown = [0u64, 1, 2000, 2499, 999_999_999_999][(i % 5) as usize];
                    let fin = [0u64, 1200, 2500, 5000][(i / 5) as usize];
                    let mut p = ClientPlan::plain(vec![
                        OpSpec::Begin { token: "A".into(), res: ResOutcome::success() },
                        OpSpec::Commit { token: "A".into(), amount: fin, rev: RevOutcome::success(), cleanup: CleanupSpec::plain() },
                    ]);
                    p.cfg.pre_auth = 2500;
                    p.pt.reservation_status_amount = Some(shown);
                    p
                }));
                // one fault at every emission point of begin - commit / begin - cancel: whatever is retried, the
                // release goes against the receipt of the reservation the terminal completed
                {
                    let b = |t: &str, pre: u8| OpSpec::Begin { token: t.into(), res: ResOutcome { pre, status: StatusMode::WithReceipt, prints: 1, end: EndSpec::Completion } };
                    let wl = vec![
                        vec![b("A", 1), OpSpec::Commit { token: "A".into(), amount: 700, rev: RevOutcome { pre: 1, status: true, prints: 0, end: EndSpec::Completion }, cleanup: CleanupSpec::plain() }],
                        vec![b("A", 0), OpSpec::Cancel { token: "A".into(), rev: RevOutcome::success(), cleanup: CleanupSpec::plain() }, b("A", 0), OpSpec::Commit { token: "A".into(), amount: 2500, rev: RevOutcome::success(), cleanup: CleanupSpec::plain() }],
                    ];
                    fams.push(fault_at_every_point("fault_at_every_point_of_begin_and_commit", wl, vec![FaultKind::Eof, FaultKind::EofMid(2), FaultKind::Reset, FaultKind::EpipeAfter, FaultKind::BadBody], 1));
                }
                // a slow but healthy terminal while the card-reading time is configured short: reservation,
                // release and clean-up take as long as they take (their time-outs are not the card reading's)
                fams.push(Family::new("slow_terminal_with_short_card_reading_time", 4 * 2, true, |i, _| {
                    let mut p = ClientPlan::plain(vec![
                        OpSpec::Begin { token: "A".into(), res: ResOutcome { pre: 1, prints: 1, ..ResOutcome::success() } },
                        if i % 2 == 0 {
                            OpSpec::Commit { token: "A".into(), amount: 1200, rev: RevOutcome { pre: 1, status: true, prints: 1, end: EndSpec::Completion }, cleanup: CleanupSpec::plain() }
                        } else {
                            OpSpec::Cancel { token: "A".into(), rev: RevOutcome { pre: 1, status: true, prints: 0, end: EndSpec::Completion }, cleanup: CleanupSpec::plain() }
                        },
                    ]);
                    let (rc, pace) = [(0u8, 4_000u32), (1, 5_000), (3, 7_000), (5, 7_000)][(i / 2) as usize];
                    p.cfg.read_card_timeout = rc;
                    p.pt.pace_ms = pace;
                    p
                }));
                // a reservation refused with an abort in one of the richer forms (currency code - the
                // terminal's own, if it has one -, TLV container), then business as usual: what a refusal
                // carried leaves no trace in later requests
                fams.push(Family::new("refused_reservation_with_rich_abort_then_transaction", 4 * 3 * 3 * 2, true, |i, _| {
                    let form = 1 + (i % 4) as u8;
                    let own = [None, Some(826u16), Some(840)][((i / 4) % 3) as usize];
                    let code = [0x6fu8, 0x64, 0xa1][((i / 12) % 3) as usize];
                    let again = i / 36 == 1;
                    let refused = OpSpec::Begin { token: "A".into(), res: ResOutcome { pre: 0, status: StatusMode::Absent, prints: 0, end: EndSpec::Abort(code) } };
                    let t = if again { "A" } else { "B" };
                    let mut p = ClientPlan::plain(vec![
                        refused,
                        OpSpec::Begin { token: t.into(), res: ResOutcome::success() },
                        OpSpec::Commit { token: t.into(), amount: 1200, rev: RevOutcome::success(), cleanup: CleanupSpec::plain() },
                        OpSpec::Begin { token: "C".into(), res: ResOutcome::success() },
                        OpSpec::Cancel { token: "C".into(), rev: RevOutcome::success(), cleanup: CleanupSpec::plain() },
                    ]);
                    p.cfg.currency = 978;
                    p.pt.abort_extras = form;
                    p.pt.status_currency = own;
                    p
                }));
                // the terminal's registration completion names a currency of its own (on the first connection,
                // or only on the one after an idle close): requests keep the configured currency
                fams.push(Family::new("terminal_registers_with_another_currency", 3 * 2 * 2, true, |i, _| {
                    let own = [826u16, 840, 752][(i % 3) as usize];
                    let mut p = ClientPlan::plain(vec![
                        OpSpec::Begin { token: "A".into(), res: ResOutcome::success() },
                        if (i / 3) % 2 == 0 {
                            OpSpec::Commit { token: "A".into(), amount: 900, rev: RevOutcome::success(), cleanup: CleanupSpec::plain() }
                        } else {
                            OpSpec::Cancel { token: "A".into(), rev: RevOutcome::success(), cleanup: CleanupSpec::plain() }
                        },
                    ]);
                    p.cfg.currency = 978;
                    p.pt.registration_currency = Some(own);
                    p.pt.status_currency = Some(own);
                    if i / 6 == 1 {
                        p.faults = vec![FaultSpec { conn: 0, point: 12, kind: FaultKind::CloseIdle }];
                    }
                    p
                }));
                // a commit / cancel the terminal refuses, naming another receipt in its abort (2.10.1 form);
                // the caller tries again: the token was closed by the first attempt, whatever the abort said
                fams.push(Family::new("refused_reversal_names_another_receipt_then_retry", 2 * 2 * 3, true, |i, _| {
                    let commit = i % 2 == 0;
                    let retry_commit = (i / 2) % 2 == 0;
                    let other = [42u16, 9999, 1][(i / 4) as usize];
                    let ab = RevOutcome { pre: 0, status: false, prints: 0, end: EndSpec::Abort(0xb8) };
                    let mk = |c: bool, rev: RevOutcome| if c {
                        OpSpec::Commit { token: "A".into(), amount: 900, rev, cleanup: CleanupSpec::plain() }
                    } else {
                        OpSpec::Cancel { token: "A".into(), rev, cleanup: CleanupSpec::plain() }
                    };
                    let mut p = ClientPlan::plain(vec![
                        OpSpec::Begin { token: "A".into(), res: ResOutcome::success() },
                        mk(commit, ab),
                        mk(retry_commit, RevOutcome::success()),
                        OpSpec::Begin { token: "A".into(), res: ResOutcome::success() },
                        mk(true, RevOutcome::success()),
                    ]);
                    p.pt.reversal_abort_receipt = Some(other);
                    p
                }));
                // last emission point of a begin that runs on connection 1 (found by a dry run)
                let after_begin: u16 = {
                    let mut p = ClientPlan::plain(vec![OpSpec::Begin { token: "tok".into(), res: ResOutcome::success() }]);
                    p.faults = vec![FaultSpec { conn: 0, point: 12, kind: FaultKind::CloseIdle }];
                    let run = crate::client::run(&p);
                    let log = run.log.lock().unwrap();
                    (log.entries.iter().filter(|e| e.conn == 1 && matches!(e.ev, crate::conn::Ev::Release(_))).count() as u16).saturating_sub(1)
                };
                for later in [false, true] {
                let pres = pres.clone();
                fams.push(Family::new(if later { "boundary_grid_on_a_later_connection" } else { "boundary_grid_pre_x_final_x_currency" }, n, true, move |i, _| {
                    let pre = pres[(i / 27) as usize];
                    let fin = match (i / 3) % 9 {
                        0 => 0,
                        1 => 1,
                        2 => pre.saturating_sub(1),
                        3 => pre,
                        4 => pre + 1,
                        5 => pre * 2,
                        6 => u64::MAX,
                        7 => u64::MAX - 1,
                        _ => 1 << 63,
                    };
                    let mut p = ClientPlan::plain(vec![
                        OpSpec::Begin {
                            token: "tok".into(),
                            res: ResOutcome::success(),
                        },
                        OpSpec::Commit {
                            token: "tok".into(),
                            amount: fin,
                            rev: RevOutcome::success(),
                            cleanup: CleanupSpec::plain(),
                        },
                    ]);
                    p.cfg.pre_auth = pre;
                    p.cfg.currency = [752u16, 826, 978][(i % 3) as usize];
                    p.pt.receipt_start = [231u16, 9999, 1, 9998][((i / 3) % 4) as usize];
                    p.pt.status_currency = if i % 5 == 4 { Some(840) } else { None };
                    if later {
                        // the terminal closes the connection once Feig::new is through (or, every other run,
                        // between begin and commit): the values travel over the second / third connection
                        p.faults = vec![FaultSpec { conn: 0, point: 12, kind: FaultKind::CloseIdle }];
                        if i % 2 == 1 {
                            p.faults.push(FaultSpec { conn: 1, point: after_begin, kind: FaultKind::CloseIdle });
                        }
                    }
                    p
                }));
                }
                let n = match tier {
                    Tier::Quick => 300_000,
                    Tier::Thorough => 6_000_000,
                };
                fams.push(Family::new("prng_amounts_tokens_receipts_status_fields", n, false, |_, rng| value_plan(rng)));
                fams.push(Family::new("prng_values_under_transport_faults", n / 3, false, |_, rng| {
                    let mut p = value_plan(rng);
                    add_faults(&mut p, rng);
                    p
                }));
            }
            "C18" => {
                let cards = all_cards();
                let n = cards.len() as u64;
                // every listed card, presented three times in one run under different schedules
                fams.push(Family::new("card_grid_presented_three_times", n * 3, true, move |i, rng| {
                    let c = cards[(i / 3) as usize].clone();
                    let ops = (0..3)
                        .map(|k| OpSpec::ReadCard {
                            card: CardOutcome {
                                pre: ((i + k) % 4) as u8,
                                kind: c.clone(),
                                delay_ms: [0, 500, 3000][(k % 3) as usize],
                            },
                        })
                        .collect();
                    let mut p = ClientPlan::plain(ops);
                    p.sched = client::default_sched_variants(i, rng.next_u64());
                    p.pt.bmp_reversed = i % 2 == 1;
                    // the identity of a card does not depend on the configured time-out (incl. its extremes)
                    p.cfg.read_card_timeout = [15u8, 5, 254, 255, 4][(i % 5) as usize]; // all above the 3 s the slowest presentation takes
                    p
                }));
                // the same grid with a connection failure between / inside the presentations
                let cards2 = all_cards();
                let n2 = cards2.len() as u64;
                fams.push(Family::new("card_grid_with_reconnect_in_between", n2 * 4, true, move |i, rng| {
                    let c = cards2[(i / 4) as usize].clone();
                    let ops = (0..3)
                        .map(|k| OpSpec::ReadCard {
                            card: CardOutcome {
                                pre: (k % 2) as u8,
                                kind: c.clone(),
                                delay_ms: 0,
                            },
                        })
                        .collect();
                    let mut p = ClientPlan::plain(ops);
                    // emission points 13.. belong to the first read_card on connection 0
                    let kind = [FaultKind::Eof, FaultKind::Reset, FaultKind::Silence, FaultKind::EofMid(3)][(i % 4) as usize];
                    p.faults = vec![FaultSpec { conn: 0, point: 13 + (i % 3) as u16 + 3, kind }, FaultSpec { conn: 1, point: 6, kind: FaultKind::BadBody }];
                    p.sched = client::default_sched_variants(i, rng.next_u64());
                    p
                }));
                // boundary sizes: the card arrives after 63..255 intermediate statuses, and / or in a
                // status information of more than 254 bytes (long application lists)
                fams.push(Family::new("long_preludes_and_big_status_packets", 8 * 6, true, |i, _| {
                    let pre = [0u8, 63, 64, 65, 127, 128, 200, 255][(i % 8) as usize];
                    let many = |n: usize| -> Vec<App> {
                        (0..n)
                            .map(|k| App {
                                aid: Some(format!("a00000000{:05}", 41010 + k)),
                                ctype: if k % 3 == 0 { Some("0005".into()) } else { None },
                            })
                            .collect()
                    };
                    let kind = match i / 8 {
                        0 => CardKind::Card { uid: Some("04a1b2c3d4e5f6".into()), apps: None, nested_apps: None, no_tlv: false },
                        1 => CardKind::Card { uid: Some("000000aabbccddeeff0011".into()), apps: Some(many(1)), nested_apps: None, no_tlv: false },
                        2 => CardKind::Card { uid: None, apps: Some(many(21)), nested_apps: None, no_tlv: false },
                        3 => CardKind::Card { uid: Some("04a1b2c3d4e5f6".into()), apps: Some(many(22)), nested_apps: None, no_tlv: false },
                        4 => CardKind::Card { uid: Some("04a1b2c3d4e5f6".into()), apps: Some(many(60)), nested_apps: None, no_tlv: false },
                        _ => CardKind::Card { uid: Some("0004a1b2c3d4e5f6".into()), apps: None, nested_apps: Some(many(40)), no_tlv: false },
                    };
                    let ops = (0..2).map(|_| OpSpec::ReadCard { card: CardOutcome { pre, kind: kind.clone(), delay_ms: 0 } }).collect();
                    let mut p = ClientPlan::plain(ops);
                    p.pt.rich_status = i % 2 == 1;
                    p
                }));
                fams.push(Family::new("all_256_abort_codes", 256 * 2, true, |i, _| {
                    ClientPlan::plain(vec![OpSpec::ReadCard {
                        card: CardOutcome {
                            pre: (i % 2 * 3) as u8,
                            kind: CardKind::Abort((i / 2) as u8),
                            delay_ms: 0,
                        },
                    }])
                }));
                // a card read over a connection that has to be set up first (the terminal closed the old one
                // while idle), with a handshake that is slow but healthy (each packet 2.5 s late: inside every
                // per-packet time-out, the handshake as a whole longer than read_card's packet time-out)
                {
                    let cards = all_cards();
                    let n = cards.len() as u64;
                    fams.push(Family::new("card_grid_after_idle_close_and_slow_handshake", n * 3, true, move |i, _| {
                        let c = cards[(i % n) as usize].clone();
                        let mut p = ClientPlan::plain(vec![
                            OpSpec::ReadCard { card: CardOutcome { pre: (i % 2) as u8, kind: c.clone(), delay_ms: 0 } },
                            OpSpec::ReadCard { card: CardOutcome { pre: 0, kind: c, delay_ms: 0 } },
                        ]);
                        let (rc, pace) = [(1u8, 2_500u32), (0, 1_500), (15, 2_500)][(i / n) as usize];
                        p.cfg.read_card_timeout = rc;
                        p.pt.handshake_pace_ms = pace;
                        p.faults = vec![FaultSpec { conn: 0, point: 12, kind: FaultKind::CloseIdle }];
                        p
                    }));
                }
                // the legal long forms: intermediate statuses with display texts, aborts with an extended
                // error code and a text behind the result code - same card, same classification
                fams.push(Family::new("all_256_abort_codes_decorated", 256 * 3, true, |i, _| {
                    let mut p = ClientPlan::plain(vec![OpSpec::ReadCard {
                        card: CardOutcome { pre: (i % 2 * 2) as u8, kind: CardKind::Abort((i % 256) as u8), delay_ms: 0 },
                    }]);
                    p.pt.decorated = 1 + (i / 256) as u8;
                    p
                }));
                {
                    let cards = all_cards();
                    let n = cards.len() as u64;
                    fams.push(Family::new("card_grid_behind_decorated_statuses", n * 2, true, move |i, _| {
                        let mut p = ClientPlan::plain(vec![
                            OpSpec::ReadCard { card: CardOutcome { pre: 1 + (i % 3) as u8, kind: cards[(i % n) as usize].clone(), delay_ms: 0 } },
                            OpSpec::ReadCard { card: CardOutcome { pre: 0, kind: cards[(i % n) as usize].clone(), delay_ms: 0 } },
                        ]);
                        p.pt.decorated = 1 + 2 * (i / n) as u8;
                        p
                    }));
                }
                let n = match tier {
                    Tier::Quick => 200_000,
                    Tier::Thorough => 5_000_000,
                };
                fams.push(Family::new("prng_cards_repeated_presentations", n, false, |_, rng| {
                    let c = random_card(rng);
                    let reps = 1 + rng.usize_below(3);
                    let mut ops: Vec<OpSpec> = vec![];
                    for _ in 0..reps {
                        ops.push(OpSpec::ReadCard {
                            card: CardOutcome {
                                pre: rng.below(6) as u8,
                                kind: c.clone(),
                                delay_ms: *rng.pick(&[0u64, 0, 10, 1500, 9000]),
                            },
                        });
                        if rng.pct(25) {
                            ops.push(OpSpec::ReadCard {
                                card: CardOutcome {
                                    pre: 0,
                                    kind: random_card(rng),
                                    delay_ms: 0,
                                },
                            });
                        }
                    }
                    let mut p = ClientPlan::plain(ops);
                    // (the longest presentation above: 9 s for the card itself)
                    p.cfg.read_card_timeout = *rng.pick(&[15u8, 15, 12, 30, 255]);
                    random_transport(&mut p, rng);
                    p
                }));
            }
            "C19" => {
                fams.push(Family::new("reply_packets_in_unusual_order", UNUSUAL_ORDER_N, true, |i, _| unusual_order_plan(i)));
                fams.push(Family::new("dangling_with_a_reused_receipt_number", 8, true, |i, _| reused_receipt_plan(i)));
                fams.push(Family::new("end_of_day_refused_in_the_long_form", 36, true, |i, _| eod_long_refusal_plan(i)));
                // (own op commit|cancel) x (other token open or not) x pending form x 256 eod outcomes (+completion)
                let n = 2 * 2 * 2 * 7 * 257 * 2;
                fams.push(Family::new("cleanup_grid_all_eod_outcomes", n, true, |mut i, _| {
                    let commit = i % 2 == 0;
                    i /= 2;
                    // the reversal of a reported dangling pre-authorisation may itself be refused
                    let cancel_end = if i % 2 == 0 { EndSpec::Completion } else { EndSpec::Abort(0xb5) };
                    i /= 2;
                    let other_open = i % 2 == 1;
                    i /= 2;
                    let pending = [PendingSpec::NoneFfff, PendingSpec::NoBmp, PendingSpec::Dangling, PendingSpec::DanglingAt(0), PendingSpec::DanglingAt(9999), PendingSpec::DanglingWithList, PendingSpec::DanglingWithOtherList][(i % 7) as usize];
                    i /= 7;
                    let noise = (i % 2) as u8;
                    i /= 2;
                    let end = if i == 256 { EndSpec::Completion } else { EndSpec::Abort(i as u8) };
                    let cleanup = CleanupSpec {
                        pending,
                        pending_pre: 0,
                        cancel: RevOutcome {
                            pre: noise,
                            status: noise == 1,
                            prints: noise,
                            end: cancel_end,
                        },
                        eod: EodOutcome {
                            pre: noise * 2,
                            status: noise == 1,
                            prints: noise,
                            end,
                        },
                    };
                    let mut ops = vec![OpSpec::Begin {
                        token: "A".into(),
                        res: ResOutcome::success(),
                    }];
                    if other_open {
                        ops.push(OpSpec::Begin {
                            token: "B".into(),
                            res: ResOutcome::success(),
                        });
                    }
                    ops.push(if commit {
                        OpSpec::Commit {
                            token: "A".into(),
                            // nothing, a part, everything, more than everything
                            amount: [1000u64, 0, 2500, 2501, u64::MAX, 1, 2499][(i % 7) as usize],
                            rev: RevOutcome {
                                pre: noise,
                                status: true,
                                prints: noise * 2,
                                end: EndSpec::Completion,
                            },
                            cleanup: cleanup.clone(),
                        }
                    } else {
                        OpSpec::Cancel {
                            token: "A".into(),
                            rev: RevOutcome::success(),
                            cleanup: cleanup.clone(),
                        }
                    });
                    if other_open {
                        // closing the last one must now trigger the clean-up
                        ops.push(OpSpec::Cancel {
                            token: "B".into(),
                            rev: RevOutcome::success(),
                            cleanup,
                        });
                    }
                    let mut p = ClientPlan::plain(ops);
                    p.cfg.max_tx = 2;
                    p
                }));
                // the terminal closes the connection cleanly between two exchanges of the call (after the
                // own reversal, after the pending query, after the reversal of the dangling
                // pre-authorisation, ...): the clean-up must still reach end-of-day
                {
                    let b = |t: &str| OpSpec::Begin { token: t.into(), res: ResOutcome::success() };
                    let cl = |pending: PendingSpec| CleanupSpec { pending, ..CleanupSpec::plain() };
                    let co = |t: &str, c: CleanupSpec| OpSpec::Commit { token: t.into(), amount: 700, rev: RevOutcome { pre: 1, status: true, prints: 1, end: EndSpec::Completion }, cleanup: c };
                    let ca = |t: &str, c: CleanupSpec| OpSpec::Cancel { token: t.into(), rev: RevOutcome::success(), cleanup: c };
                    let wl = vec![
                        vec![b("A"), co("A", cl(PendingSpec::NoneFfff))],
                        vec![b("A"), co("A", cl(PendingSpec::Dangling))],
                        vec![b("A"), ca("A", cl(PendingSpec::NoBmp))],
                        vec![b("A"), ca("A", cl(PendingSpec::Dangling))],
                        vec![b("A"), b("B"), co("B", cl(PendingSpec::NoneFfff)), ca("A", cl(PendingSpec::Dangling))],
                    ];
                    fams.push(fault_at_every_point("connection_closed_between_exchanges_at_every_point", wl.clone(), vec![FaultKind::CloseIdle], 2));
                    // a command answered once with a negative acknowledgement (busy): results-only rules (a client
                    // may take the refusal as final - nothing in C19 says "repeat until accepted")
                    fams.push(fault_at_every_point("command_refused_once_at_every_point", wl, vec![FaultKind::Nack(0x9c), FaultKind::Nack(0x83)], 2));
                }
                let depth = 3;
                fams.push(Family::new(
                    "all_histories_depth_3",
                    history_count(9, depth),
                    true,
                    move |i, _| history_at(i, &TOKENS3, depth),
                ));
                let n = match tier {
                    Tier::Quick => 200_000,
                    Tier::Thorough => 5_000_000,
                };
                fams.push(Family::new("random_walks_with_cleanup_variants", n, false, |_, rng| random_walk(rng, &TOKENS5, 24)));
                fams.push(Family::new("random_walks_under_transport_faults", n / 2, false, |_, rng| faulty_walk(rng, &TOKENS5, 12)));
            }
            "C20" => {
                fams.push(Family::new("dangling_with_a_reused_receipt_number", 8, true, |i, _| reused_receipt_plan(i)));
                fams.push(Family::new("end_of_day_refused_in_the_long_form", 36, true, |i, _| eod_long_refusal_plan(i)));
                // 'receiver not ready' once - in Feig::new's own end-of-day or behind an earlier transaction -, then
                // a later end-of-day refused with another code: each refusal is judged on its own code
                fams.push(Family::new("end_of_day_not_ready_earlier_then_refused", 256 * 2 * 2, true, |i, _| {
                    let code = (i % 256) as u8;
                    let commit = (i / 256) % 2 == 0;
                    let in_new = i / 512 == 1;
                    let eod = |c: u8| CleanupSpec { eod: EodOutcome { pre: 0, status: false, prints: 0, end: EndSpec::Abort(c) }, ..CleanupSpec::plain() };
                    let close = |t: &str, c: CleanupSpec| if commit {
                        OpSpec::Commit { token: t.into(), amount: 300, rev: RevOutcome::success(), cleanup: c }
                    } else {
                        OpSpec::Cancel { token: t.into(), rev: RevOutcome::success(), cleanup: c }
                    };
                    let mut ops = vec![];
                    if !in_new {
                        ops.push(OpSpec::Begin { token: "A".into(), res: ResOutcome::success() });
                        ops.push(close("A", eod(0xa0)));
                    }
                    ops.push(OpSpec::Begin { token: "B".into(), res: ResOutcome::success() });
                    ops.push(close("B", eod(code)));
                    let mut p = ClientPlan::plain(ops);
                    if in_new {
                        p.init.cleanup = eod(0xa0);
                    }
                    p
                }));
                // a reservation whose status information already shows the result code the abort will carry
                fams.push(Family::new("reservation_status_shows_the_abort_code", 256 * 2, true, |i, _| {
                    let mut p = ClientPlan::plain(vec![
                        OpSpec::Begin { token: "A".into(), res: ResOutcome { pre: (i / 256) as u8, status: StatusMode::WithReceipt, prints: 0, end: EndSpec::Abort((i % 256) as u8) } },
                        OpSpec::Begin { token: "A".into(), res: ResOutcome::success() },
                    ]);
                    p.pt.status_shows_abort_code = true;
                    p
                }));
                // exchange x 256 codes x abort after k in 0..4 non-final packets
                fams.push(Family::new("every_exchange_x_256_codes_x_position", 9 * 256 * 4, true, |i, _| {
                    let code = (i % 256) as u8;
                    let k = ((i / 256) % 4) as u8;
                    let ex = i / 1024;
                    abort_exchange_plan(ex, code, k, k / 2)
                }));
                // the non-final packets before the abort in an unusual order
                fams.push(Family::new("abort_behind_packets_in_unusual_order", 9 * 256 * 3, true, |i, _| {
                    let mut p = abort_exchange_plan(i / 768, (i % 256) as u8, 3, 2);
                    p.pt.script_order = 1 + ((i / 256) % 3) as u8;
                    p
                }));
                // aborts in the long form (TLV container with extended error code and text behind the code),
                // behind intermediate statuses that carry display texts
                fams.push(Family::new("every_exchange_x_256_codes_decorated", 9 * 256 * 2, true, |i, _| {
                    let mut p = abort_exchange_plan(i / 512, (i % 256) as u8, 1, 0);
                    p.pt.decorated = 2 + ((i / 256) % 2) as u8;
                    p
                }));
                // the same on a later connection: the terminal closed the first one once Feig::new was through
                fams.push(Family::new("every_exchange_x_256_codes_on_a_later_connection", 9 * 256 * 2, true, |i, _| {
                    let code = (i % 256) as u8;
                    let k = ((i / 256) % 2) as u8;
                    let ex = i / 512;
                    let mut p = abort_exchange_plan(ex, code, k, 0);
                    p.faults = vec![FaultSpec { conn: 0, point: 12, kind: FaultKind::CloseIdle }];
                    p
                }));
                // the reversal of the dangling pre-authorisation inside the clean-up is aborted
                fams.push(Family::new("dangling_reversal_aborted_x_256_codes", 256 * 2 * 4, true, |i, _| {
                    let code = (i % 256) as u8;
                    let commit = (i / 256) % 2 == 0;
                    let pending = [PendingSpec::Dangling, PendingSpec::DanglingAt(0), PendingSpec::DanglingAt(9999), PendingSpec::DanglingWithList][(i / 512) as usize];
                    let cleanup = CleanupSpec {
                        pending,
                        cancel: RevOutcome { pre: (i % 2) as u8, status: false, prints: 0, end: EndSpec::Abort(code) },
                        ..CleanupSpec::plain()
                    };
                    let begin = OpSpec::Begin { token: "A".into(), res: ResOutcome::success() };
                    let close = if commit {
                        OpSpec::Commit { token: "A".into(), amount: 100, rev: RevOutcome::success(), cleanup }
                    } else {
                        OpSpec::Cancel { token: "A".into(), rev: RevOutcome::success(), cleanup }
                    };
                    ClientPlan::plain(vec![begin, close])
                }));
                // the abort of a reservation in the richer forms ZVT 2.2.9 allows: currency code, TLV
                // container with extended error code (one or two bytes) and text
                fams.push(Family::new("reservation_abort_with_currency_and_tlv", 4 * 256 * 2, true, |i, _| {
                    let mut p = abort_exchange_plan(1, (i % 256) as u8, ((i / 256) % 2) as u8, 0);
                    p.pt.abort_extras = 1 + (i / 512) as u8;
                    p
                }));
                // the card-reading abort arrives late - after the configured time, still inside the 2 s of grace -
                // or with the configured time at its extremes: its code still counts (only 6C means "no card")
                fams.push(Family::new("card_abort_late_and_timeout_extremes", 256 * 5, true, |i, _| {
                    let code = (i % 256) as u8;
                    let (tau, delay) = [(0u8, 0u64), (0, 1_500), (1, 1_700), (15, 16_200), (255, 0)][(i / 256) as usize];
                    let mut p = ClientPlan::plain(vec![OpSpec::ReadCard { card: CardOutcome { pre: (i % 2) as u8, kind: CardKind::Abort(code), delay_ms: delay } }]);
                    p.cfg.read_card_timeout = if i / 256 == 4 && i % 2 == 1 { 254 } else { tau };
                    p
                }));
                // the abort packet arrives in two pieces (after 1, 2, 3 bytes) with 50 / 150 ms in between
                // (below the specification's inter-character time-out of 200 ms: nobody may give up there)
                fams.push(Family::new("abort_packet_in_two_pieces", 9 * 3 * 2 * 4, true, |i, _| {
                    let code = [0x6fu8, 0x64, 0xb4, 0x05][(i % 4) as usize];
                    let ms = [50u32, 150][((i / 4) % 2) as usize];
                    let n = 1 + ((i / 8) % 3) as u8;
                    let mut p = abort_exchange_plan(i / 24, code, 1, 0);
                    p.pt.frame_pause = Some((n, ms, 1));
                    p
                }));
                // the abort comes late: after 63..255 intermediate / print packets
                fams.push(Family::new("abort_after_long_scripts", 9 * 6 * 4, true, |i, _| {
                    let code = [0x00u8, 0x64, 0xb4, 0xff][(i % 4) as usize];
                    let (k, prints) = [(63u8, 0u8), (64, 1), (65, 64), (127, 1), (129, 0), (255, 255)][((i / 4) % 6) as usize];
                    abort_exchange_plan(i / 24, code, k, prints)
                }));
                // the configure step's end-of-day
                fams.push(Family::new("configure_end_of_day_x_256_codes", 256, true, |i, _| {
                    ClientPlan::plain(vec![OpSpec::Configure {
                        out: ConfigureOutcome {
                            cleanup: CleanupSpec {
                                eod: EodOutcome {
                                    pre: (i % 3) as u8,
                                    status: false,
                                    prints: 0,
                                    end: EndSpec::Abort(i as u8),
                                },
                                ..CleanupSpec::plain()
                            },
                            ..ConfigureOutcome::plain()
                        },
                    }])
                }));
                // an abort that arrives on a repeated command after a transport fault
                // (e.g. "already reversed" B4 for a reversal whose completion got lost)
                {
                    let wl: Vec<Vec<OpSpec>> = vec![
                        vec![
                            OpSpec::Begin { token: "A".into(), res: ResOutcome::success() },
                            OpSpec::Cancel { token: "A".into(), rev: RevOutcome::success(), cleanup: CleanupSpec::plain() },
                        ],
                        vec![
                            OpSpec::Begin { token: "A".into(), res: ResOutcome::success() },
                            OpSpec::Commit { token: "A".into(), amount: 100, rev: RevOutcome::success(), cleanup: CleanupSpec::plain() },
                        ],
                        vec![OpSpec::Begin {
                            token: "A".into(),
                            res: ResOutcome { pre: 1, status: StatusMode::WithReceipt, prints: 0, end: EndSpec::Abort(0x6f) },
                        }],
                        // the terminal's decision for the repeated command is an abort
                        vec![
                            OpSpec::Begin { token: "A".into(), res: ResOutcome::success() },
                            OpSpec::Cancel { token: "A".into(), rev: RevOutcome { pre: 0, status: false, prints: 0, end: EndSpec::Abort(0xb4) }, cleanup: CleanupSpec::plain() },
                        ],
                        vec![
                            OpSpec::Begin { token: "A".into(), res: ResOutcome::success() },
                            OpSpec::Commit { token: "A".into(), amount: 100, rev: RevOutcome { pre: 1, status: true, prints: 0, end: EndSpec::Abort(0xb4) }, cleanup: CleanupSpec::plain() },
                        ],
                        vec![
                            OpSpec::Begin { token: "A".into(), res: ResOutcome::success() },
                            OpSpec::Cancel { token: "A".into(), rev: RevOutcome { pre: 1, status: false, prints: 1, end: EndSpec::Abort(0xa0) }, cleanup: CleanupSpec::plain() },
                        ],
                    ];
                    let kinds = [FaultKind::EpipeAfter, FaultKind::Eof, FaultKind::Reset, FaultKind::Nack(0x9c), FaultKind::Silence, FaultKind::EofMid(2)];
                    let mut cases: Vec<(usize, u16, FaultKind)> = vec![];
                    for (wi, ops) in wl.iter().enumerate() {
                        let pts = crate::c09::dry_points(ops, 2);
                        for pnt in 13..=pts {
                            for k in kinds {
                                cases.push((wi, pnt, k));
                            }
                        }
                    }
                    let n = cases.len() as u64;
                    fams.push(Family::new("abort_on_repeat_after_fault_every_point", n, true, move |i, _| {
                        let (wi, point, kind) = cases[i as usize];
                        let mut p = ClientPlan::plain(wl[wi].clone());
                        p.cfg.max_tx = 2;
                        p.faults = vec![FaultSpec { conn: 0, point, kind }];
                        p
                    }));
                }
                let n = match tier {
                    Tier::Quick => 150_000,
                    Tier::Thorough => 3_000_000,
                };
                fams.push(Family::new("random_walks_with_aborts_under_faults", n / 3, false, |_, rng| {
                    let mut p = faulty_walk(rng, &TOKENS3, 8);
                    for op in p.ops.iter_mut() {
                        match op {
                            OpSpec::Begin { res, .. } if rng.pct(30) => res.end = EndSpec::Abort(rng.next_u64() as u8),
                            OpSpec::Commit { rev, .. } | OpSpec::Cancel { rev, .. } if rng.pct(30) => rev.end = EndSpec::Abort(rng.next_u64() as u8),
                            _ => {}
                        }
                    }
                    p
                }));
                fams.push(Family::new("random_walks_with_aborts", n, false, |_, rng| {
                    let mut p = random_walk(rng, &TOKENS3, 10);
                    // raise the abort rate
                    for op in p.ops.iter_mut() {
                        match op {
                            OpSpec::Begin { res, .. } if rng.pct(40) => res.end = EndSpec::Abort(rng.next_u64() as u8),
                            OpSpec::Commit { rev, cleanup, .. } | OpSpec::Cancel { rev, cleanup, .. } => {
                                if rng.pct(30) {
                                    rev.end = EndSpec::Abort(rng.next_u64() as u8)
                                }
                                if rng.pct(30) {
                                    cleanup.eod.end = EndSpec::Abort(rng.next_u64() as u8)
                                }
                            }
                            _ => {}
                        }
                    }
                    if rng.pct(30) {
                        let k = rng.usize_below(p.ops.len() + 1);
                        p.ops.insert(
                            k,
                            OpSpec::ReadCard {
                                card: CardOutcome {
                                    pre: rng.below(4) as u8,
                                    kind: CardKind::Abort(rng.next_u64() as u8),
                                    delay_ms: 0,
                                },
                            },
                        );
                    }
                    // (a card reading was added behind random_transport's back: bound its duration again)
                    limit_delays(&mut p);
                    p
                }));
            }
            _ => {}
        }
        fams
    }

    fn run(&self, plan: &ClientPlan, want_trace: bool) -> RunOut {
        run_fault_free(self.id, plan, want_trace)
    }

    fn shrink(&self, plan: &ClientPlan) -> Vec<ClientPlan> {
        shrink_client_plan(plan)
    }

    fn rule_text(&self) -> String {
        let common = "one run = the real Feig::new (real configure) + a history of public calls against the stateful simulated terminal on a fault-free transport (schedules only: read chunking, short writes, Pending, emission delays below every timeout), every terminal outcome taken from the plan; the reference model predicts per call refusal without traffic or the exact command frames, the result class and the new token map; distinct = hash of per-call (name, result class, control fields sent, connection); non-trivial = at least one public call; states = distinct (token map, ledger) states";
        let own = match self.id {
            "C07" => "workload: every history over begin/commit/cancel x tokens {A,B,\"\"} to depth 3 (quick) / 4 (thorough) x max 0..3 x outcomes {success, abort, no receipt}; depth-5 call sequences with PRNG outcomes (thorough); PRNG walks to depth 40 over 5 tokens",
            "C08" => "workload: boundary grid pre-authorisation {0,1,2,2500,99999,100000,10^12-2,10^12-1} x final {0,1,pre-1,pre,pre+1,2pre,u64::MAX,u64::MAX-1,2^63} x 3 currencies; PRNG amounts over every digit count, CP437 tokens (0..64 bytes, and lengths at which an enclosing TLV length crosses 127/128 and 255/256, up to 5000), receipt counter incl. wrap, PT status fields over their ranges, password 0..999999, 1-3 concurrent transactions",
            "C18" => "workload: grid of 16 UID forms x 9 application-list forms, each presented three times in one run under different schedules and delays; all 256 abort codes; PRNG cards (UID 0..20 bytes incl. zero padding, 0..4 applications) presented repeatedly",
            "C19" => "workload: commit/cancel x (other token open or not) x pending-query answer {FFFF, no BMP, dangling receipt} x end-of-day outcome {completion, all 256 abort codes} with and without intermediate/print packets; every history to depth 3; PRNG walks with clean-up variants",
            "C20" => "workload: 9 abort-capable exchanges (read card, reservation, partial reversal, pre-auth reversal, end-of-day after commit / after cancel, configure's system info / set terminal id / initialisation) x all 256 result codes x abort after k = 0..3 non-final packets; configure's end-of-day x 256; PRNG walks with raised abort rate",
            _ => "",
        };
        format!("{common}; {own}")
    }

    fn assumptions(&self) -> Vec<String> {
        let mut v = vec![
            "the simulated terminal (pt.rs) is our reading of ZVT 13.x / cVEND and of the captures: lockstep replies, pending query answered with 06 1E B8 [87 rrrr]".to_string(),
            "reference codec (refcodec.rs) decodes the client's requests independently of zvt_builder/zvt_derive".to_string(),
            "fault-free transport: the exact model applies; faults are C09/C10's business".to_string(),
            "yore's CP437 table (third-party crate) maps tokens to bytes for the comparison".to_string(),
        ];
        if self.id == "C20" || self.id == "C18" {
            v.push("chapter-10 message table transcribed in model.rs at the pinned commit".to_string());
        }
        v
    }
    fn components_real(&self) -> Vec<&'static str> {
        vec![
            "zvt_feig_terminal::feig::Feig (new, configure, read_card, begin/commit/cancel_transaction)",
            "zvt_feig_terminal::stream (TcpStream, ResetSequence retry/timeout loop, handshake connect)",
            "zvt::sequences / zvt::io / zvt codec",
            "tokio time (paused clock: discrete-event), tokio-stream throttle",
        ]
    }
    fn components_stub(&self) -> Vec<&'static str> {
        vec![
            "TCP socket (SimConn behind the zvt_verif hook)",
            "payment terminal (stateful model with ledger)",
            "clock (tokio paused, auto-advancing)",
        ]
    }
    fn expected_probes(&self) -> Vec<&'static str> {
        match self.id {
            "C07" => vec!["probe.begin_refused", "probe.unknown_token_refused", "probe.begin_ok", "probe.begin_failed_by_terminal", "probe.reversal_aborted"],
            "C08" => vec!["probe.summary_compared", "probe.cleanup_with_dangling_receipt"],
            "C18" => vec!["probe.card_classified_after_retry", "probe.card_bank", "probe.card_membership", "probe.card_timeout", "probe.card_abort", "probe.card_unclassifiable", "probe.card_first_entry_without_id"],
            "C19" => vec!["probe.cleanup_after_idle_close", "probe.cleanup_expected", "probe.cleanup_with_dangling_receipt", "probe.no_cleanup_while_open", "probe.eod_refused", "probe.dangling_reversal_refused"],
            "C20" => vec!["probe.card_abort", "probe.reversal_aborted", "probe.eod_refused", "probe.configure_aborted", "probe.begin_failed_by_terminal"],
            _ => vec![],
        }
    }
}

pub fn shrink_client_plan(plan: &ClientPlan) -> Vec<ClientPlan> {
    let mut out = vec![];
    let mut push = |p: ClientPlan| {
        if p != *plan {
            out.push(p)
        }
    };
    // transport first
    let mut p = plan.clone();
    p.sched = Sched::whole();
    p.max_delay_ms = 0;
    p.delay_pct = 0;
    push(p);
    if !plan.faults.is_empty() {
        for i in 0..plan.faults.len() {
            let mut p = plan.clone();
            p.faults.remove(i);
            push(p);
        }
    }
    if !plan.connects.is_empty() {
        let mut p = plan.clone();
        p.connects.clear();
        push(p);
    }
    // drop calls: suffix first, then any
    for n in (0..plan.ops.len()).rev() {
        let mut p = plan.clone();
        p.ops.truncate(n);
        push(p);
    }
    for i in 0..plan.ops.len() {
        let mut p = plan.clone();
        p.ops.remove(i);
        push(p);
    }
    // simpler outcomes
    for i in 0..plan.ops.len() {
        let mut p = plan.clone();
        match &mut p.ops[i] {
            OpSpec::Begin { res, .. } => *res = ResOutcome::success(),
            OpSpec::Commit { rev, cleanup, .. } | OpSpec::Cancel { rev, cleanup, .. } => {
                *rev = RevOutcome::success();
                *cleanup = CleanupSpec::plain();
            }
            OpSpec::ReadCard { card } => {
                card.pre = 0;
                card.delay_ms = 0;
            }
            OpSpec::Configure { out } => *out = ConfigureOutcome::plain(),
        }
        push(p);
        let mut p = plan.clone();
        match &mut p.ops[i] {
            OpSpec::Commit { cleanup, .. } | OpSpec::Cancel { cleanup, .. } => *cleanup = CleanupSpec::plain(),
            OpSpec::Begin { res, .. } => {
                res.pre = 0;
                res.prints = 0;
            }
            _ => {}
        }
        push(p);
        let mut p = plan.clone();
        if let OpSpec::Commit { amount, .. } = &mut p.ops[i] {
            *amount = if *amount > 2500 { 2500 } else { 0 };
        }
        push(p);
    }
    // plain configuration
    let mut p = plan.clone();
    p.cfg = CfgSpec {
        max_tx: plan.cfg.max_tx,
        ..CfgSpec::plain()
    };
    p.pt.serial = p.cfg.serial.clone();
    p.pt.terminal_id = p.cfg.terminal_id.clone();
    push(p);
    let mut p = plan.clone();
    p.pt.bmp_reversed = false;
    p.pt.rich_status = false;
    p.pt.receipt_start = 231;
    push(p);
    // simpler tokens
    let mut toks: Vec<String> = vec![];
    for op in &plan.ops {
        if let OpSpec::Begin { token, .. } | OpSpec::Commit { token, .. } | OpSpec::Cancel { token, .. } = op {
            if !toks.contains(token) {
                toks.push(token.clone());
            }
        }
    }
    if toks.iter().any(|t| t.len() != 1) {
        let mut p = plan.clone();
        for op in p.ops.iter_mut() {
            if let OpSpec::Begin { token, .. } | OpSpec::Commit { token, .. } | OpSpec::Cancel { token, .. } = op {
                let k = toks.iter().position(|t| t == token).unwrap();
                *token = ((b'A' + k as u8) as char).to_string();
            }
        }
        push(p);
    }
    out
}
