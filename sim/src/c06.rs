//! C06 — a failed exchange yields exactly one error, then silence.
//! Single-fault enumeration: every fault kind at every position of every
//! script prefix; multi-fault PRNG runs on top. "Undecodable" is decided by
//! asking the library's own parser (exchange::predict), never by the oracle's
//! opinion of the codec.
use crate::c05::{frames_for, random_paced_cuts, random_plan, scripts, shrink_explan};
use crate::conn::{CloseKind, Sched};
use crate::exchange::{run_and_judge, ExPlan, Mode};
use crate::framework::{Check, Family, RunOut, Tier};
use crate::refcodec as rc;
use crate::rng::Rng;
use crate::seqs::{self, Cf, InParams, SeqId, ALL_SEQS};
use std::sync::Arc;

pub struct C06;

#[derive(Clone, Debug)]
pub enum FaultCase {
    Nack(u8),
    AckForeign(u8),
    ForeignCf { pos: u8, cf: Cf, body: u8 },
    BadBody { pos: u8, which: u8 },
    Cut { at: u32, kind: CloseKind },
    Epipe { at: u8 },
}

/// Frames whose control field is in some reply alphabet but whose body the
/// packet type cannot decode (the library has the last word, see predict()).
pub fn bad_bodies(cf: Cf, id: SeqId) -> Vec<Vec<u8>> {
    match cf {
        seqs::CF_INTERMEDIATE => vec![vec![0x04, 0xff, 0x00]],
        seqs::CF_STATUS => vec![
            vec![0x04, 0x0f, 0x02, 0x04, 0x00],
            vec![0x04, 0x0f, 0x03, 0x06, 0x05, 0x4c],
            vec![0x04, 0x0f, 0x02, 0x87, 0x01],
            vec![0x04, 0x0f, 0x04, 0x27, 0x00, 0x27, 0x00],
            // BER length prefixes cut off at the end of the packet
            vec![0x04, 0x0f, 0x02, 0x06, 0x81],
            vec![0x04, 0x0f, 0x02, 0x06, 0x82],
            vec![0x04, 0x0f, 0x03, 0x06, 0x82, 0x00],
            vec![0x04, 0x0f, 0x04, 0x06, 0x02, 0x4c, 0x81],
        ],
        seqs::CF_PRINT_LINE => vec![vec![0x06, 0xd1, 0x00]],
        seqs::CF_PRINT_BLOCK => vec![
            vec![0x06, 0xd3, 0x03, 0x06, 0x05, 0x1f],
            vec![0x06, 0xd3, 0x02, 0x06, 0x81],
            vec![0x06, 0xd3, 0x04, 0x06, 0x02, 0x25, 0x82],
        ],
        seqs::CF_REQUEST_DATA => vec![vec![0x04, 0x0c, 0x02, 0x06, 0x81], vec![0x04, 0x0c, 0x03, 0x06, 0x82, 0x01]],
        seqs::CF_SET_TIME => vec![
            vec![0x04, 0x01, 0x00],
            vec![0x04, 0x01, 0x04, 0xaa, 0x23, 0x01, 0x01],
        ],
        seqs::CF_COMPLETION => match id {
            SeqId::GetSystemInfo => vec![vec![0x06, 0x0f, 0x05, 0x31, 0x32, 0x33, 0x34, 0x35]],
            _ => vec![vec![0x06, 0x0f, 0x01, 0x29], vec![0x06, 0x0f, 0x02, 0x49, 0x09]],
        },
        seqs::CF_ABORT => vec![vec![0x06, 0x1e, 0x00]],
        _ => vec![],
    }
}

/// Is this bad body malformed in the one way on which the reference codec, not the library under
/// test, has the last word: a BER-TLV length prefix (`81` / `82` form) cut off at the end of the
/// packet ("a truncated prefix is an error")? Every other bad body - a missing byte, a short
/// fixed-width field, a duplicated tag - is left to the library's own parser, which may be lenient.
pub fn structurally_malformed(frame: &[u8]) -> bool {
    matches!(
        frame,
        [0x04, 0x0f, 0x02, 0x06, 0x81]
            | [0x04, 0x0f, 0x02, 0x06, 0x82]
            | [0x04, 0x0f, 0x03, 0x06, 0x82, 0x00]
            | [0x04, 0x0f, 0x04, 0x06, 0x02, 0x4c, 0x81]
            | [0x06, 0xd3, 0x02, 0x06, 0x81]
            | [0x06, 0xd3, 0x04, 0x06, 0x02, 0x25, 0x82]
            | [0x04, 0x0c, 0x02, 0x06, 0x81]
            | [0x04, 0x0c, 0x03, 0x06, 0x82, 0x01]
    )
}

/// Control fields near the alphabet, of other replies, and a fixed PRNG sample.
pub fn foreign_cfs(id: SeqId) -> Vec<Cf> {
    let info = seqs::info(id);
    let mut v: Vec<Cf> = vec![];
    let mut v_extra: Vec<Cf> = vec![];
    fn v_push(v: &mut Vec<Cf>, w: u16) {
        v.push(((w >> 8) as u8, w as u8));
    }
    // the acknowledgement's control field has neighbours too (80 00)
    for d in [1u16, 0xff, 0x100, 0x101] {
        v_push(&mut v_extra, 0x8000u16.wrapping_add(d));
        v_push(&mut v_extra, 0x8000u16.wrapping_sub(d));
    }
    for (c, i) in info.alphabet() {
        v.extend([
            (c.wrapping_add(1), i),
            (c.wrapping_sub(1), i),
            (c, i.wrapping_add(1)),
            (c, i.wrapping_sub(1)),
            (c, 0x00),
            (c, 0xff),
            (0x00, i),
            (0x84, i),
            (i, c),
        ]);
        // arithmetic neighbours of the 16-bit control field (carry between the two bytes)
        let cfv = ((c as u16) << 8) | i as u16;
        for d in [1u16, 0xff, 0x100, 0x101] {
            for w in [cfv.wrapping_add(d), cfv.wrapping_sub(d)] {
                v_push(&mut v_extra, w);
            }
        }
    }
    v.extend(v_extra);
    v.extend([
        seqs::CF_ACK,
        (0x84, 0x00),
        (0x84, 0x9c),
        seqs::CF_COMPLETION,
        seqs::CF_ABORT,
        seqs::CF_INTERMEDIATE,
        seqs::CF_STATUS,
        seqs::CF_PRINT_LINE,
        seqs::CF_PRINT_BLOCK,
        seqs::CF_SET_TIME,
        seqs::CF_REQUEST_DATA,
        info.cmd,
        (0x06, 0x00),
        (0x06, 0xd8),
        (0x0f, 0xa1),
    ]);
    let mut rng = Rng::new(0xF0E1_6E00 ^ id as u64);
    for _ in 0..48 {
        v.push((rng.next_u64() as u8, rng.next_u64() as u8));
    }
    v.retain(|cf| !info.in_alphabet(*cf));
    v.sort();
    v.dedup();
    v
}

fn foreign_body(cf: Cf, which: u8, id: SeqId) -> Vec<u8> {
    match which % 3 {
        0 => rc::apdu(cf, &[]),
        1 => {
            // a body that is valid for a packet of the alphabet
            let info = seqs::info(id);
            let donor = info.alphabet()[0];
            let f = seqs::reply_frame(id, &seqs::Reply { cf: donor, marker: 5 });
            rc::apdu(cf, rc::frame_body(&f))
        }
        _ => rc::apdu(cf, &[0x27, 0x00]),
    }
}

pub fn apply(base: &ExPlan, case: &FaultCase) -> ExPlan {
    let mut p = base.clone();
    match case {
        FaultCase::Nack(x) => {
            p.ack = rc::nack(*x);
            p.fault = "nack".into();
        }
        FaultCase::AckForeign(k) => {
            p.ack = match k % 5 {
                0 => rc::completion(),
                1 => rc::abort(0x6c, rc::AbortExtra::None),
                2 => rc::intermediate(1, None),
                3 => rc::apdu((0x80, 0x01), &[]),
                _ => rc::apdu((0x81, 0x00), &[]),
            };
            p.fault = "ack_foreign".into();
        }
        FaultCase::ForeignCf { pos, cf, body } => {
            let f = foreign_body(*cf, *body, p.seq);
            let at = (*pos as usize).min(p.replies.len());
            for m in p.malformed_replies.iter_mut() {
                if *m as usize >= at {
                    *m += 1;
                }
            }
            p.replies.insert(at, f);
            p.fault = "foreign_cf".into();
        }
        FaultCase::BadBody { pos, which } => {
            let info = seqs::info(p.seq);
            let mut cands = vec![];
            for cf in info.alphabet() {
                cands.extend(bad_bodies(cf, p.seq));
            }
            let f = cands[*which as usize % cands.len()].clone();
            let at = (*pos as usize).min(p.replies.len());
            for m in p.malformed_replies.iter_mut() {
                if *m as usize >= at {
                    *m += 1;
                }
            }
            if structurally_malformed(&f) {
                p.malformed_replies.push(at as u32);
            }
            p.replies.insert(at, f);
            p.fault = "bad_body".into();
        }
        FaultCase::Cut { at, kind } => {
            p.cut = Some((*at, *kind));
            p.fault = match kind {
                CloseKind::Eof => "eof".into(),
                CloseKind::Reset => "reset".into(),
            };
        }
        FaultCase::Epipe { at } => {
            p.epipe_at = Some(*at as u32);
            p.fault = "epipe".into();
        }
    }
    p
}

pub fn cases_for(id: SeqId, base: &ExPlan, with_nack: bool, foreign: &[Cf]) -> Vec<FaultCase> {
    let mut out = vec![];
    if with_nack {
        for x in 0..=255u8 {
            out.push(FaultCase::Nack(x));
        }
        for k in 0..5 {
            out.push(FaultCase::AckForeign(k));
        }
    }
    let n = base.replies.len();
    for pos in 0..n as u8 {
        for (j, cf) in foreign.iter().enumerate() {
            out.push(FaultCase::ForeignCf {
                pos,
                cf: *cf,
                body: j as u8,
            });
        }
        let info = seqs::info(id);
        let nb: usize = info.alphabet().iter().map(|cf| bad_bodies(*cf, id).len()).sum();
        for which in 0..nb as u8 {
            out.push(FaultCase::BadBody { pos, which });
        }
    }
    // the stream ends at every byte position up to the end of the final packet
    let len = base.stream().len() - base.tail.len();
    for at in 0..len as u32 {
        out.push(FaultCase::Cut {
            at,
            kind: CloseKind::Eof,
        });
        if at % 3 == 1 {
            out.push(FaultCase::Cut {
                at,
                kind: CloseKind::Reset,
            });
        }
    }
    for at in 0..=(n as u8) {
        out.push(FaultCase::Epipe { at });
    }
    out
}

impl Check for C06 {
    type Plan = ExPlan;
    fn id(&self) -> &'static str {
        "C06"
    }
    fn level(&self) -> &'static str {
        "fault_enumeration"
    }

    fn families(&self, tier: Tier, _seed: u64) -> Vec<Family<ExPlan>> {
        let depth = match tier {
            Tier::Quick => 1,
            Tier::Thorough => 2,
        };
        let modes: &[Mode] = match tier {
            Tier::Quick => &[Mode::Lockstep, Mode::Eager],
            Tier::Thorough => &[Mode::Lockstep, Mode::Eager, Mode::Paced],
        };
        let mut bases: Vec<ExPlan> = vec![];
        let mut cases: Vec<(u32, FaultCase)> = vec![];
        for id in ALL_SEQS {
            let foreign = foreign_cfs(id);
            let mut first = true;
            for script in scripts(id, depth) {
                for mode in modes {
                    let mut base = ExPlan::clean(id, InParams::fixed(), frames_for(id, &script, 3));
                    base.mode = *mode;
                    base.tail = rc::ACK.to_vec();
                    let bi = bases.len() as u32;
                    for c in cases_for(id, &base, first, &foreign) {
                        cases.push((bi, c));
                    }
                    bases.push(base);
                }
                first = false;
            }
        }
        let bases = Arc::new(bases);
        let cases = Arc::new(cases);
        let n = cases.len() as u64;
        let mut fams = vec![];
        {
            let (bases, cases) = (bases.clone(), cases.clone());
            fams.push(Family::new("single_fault_every_position", n, true, move |i, rng| {
                let (bi, case) = &cases[i as usize];
                let mut p = apply(&bases[*bi as usize], case);
                if p.mode == Mode::Paced {
                    let len = p.stream().len();
                    p.paced_cuts = random_paced_cuts(rng, len);
                    p.paced_gaps_ms = crate::c05::random_paced_gaps(rng);
                }
                p
            }));
        }
        {
            // the same single faults under adversarial schedules (sampled)
            let (bases, cases) = (bases.clone(), cases.clone());
            let count = match tier {
                Tier::Quick => 200_000,
                Tier::Thorough => 2_400_000,
            };
            fams.push(Family::new("single_fault_random_schedule", count, false, move |_i, rng| {
                let (bi, case) = &cases[rng.usize_below(cases.len())];
                let mut p = apply(&bases[*bi as usize], case);
                p.sched = Sched::random(rng);
                p.mode = *rng.pick(&[Mode::Lockstep, Mode::Eager, Mode::Paced]);
                if p.mode == Mode::Paced {
                    let len = p.stream().len();
                    p.paced_cuts = random_paced_cuts(rng, len);
                    p.paced_gaps_ms = crate::c05::random_paced_gaps(rng);
                }
                p
            }));
        }
        {
            let count = match tier {
                Tier::Quick => 200_000,
                Tier::Thorough => 4_000_000,
            };
            fams.push(Family::new("multi_fault_random", count, false, move |_i, rng| {
                let mut p = random_plan(rng, 12);
                let foreign = foreign_cfs(p.seq);
                let nf = 1 + rng.usize_below(3);
                for _ in 0..nf {
                    let n = p.replies.len() as u64;
                    let len = (p.stream().len() - p.tail.len()) as u64;
                    let case = match rng.below(6) {
                        0 => FaultCase::Nack(rng.next_u64() as u8),
                        1 => FaultCase::ForeignCf {
                            pos: rng.below(n + 1) as u8,
                            cf: *rng.pick(&foreign),
                            body: rng.next_u64() as u8,
                        },
                        2 => FaultCase::BadBody {
                            pos: rng.below(n + 1) as u8,
                            which: rng.next_u64() as u8,
                        },
                        3 => FaultCase::Cut {
                            at: rng.below(len.max(1)) as u32,
                            kind: if rng.pct(50) { CloseKind::Eof } else { CloseKind::Reset },
                        },
                        4 => FaultCase::Epipe {
                            at: rng.below(n + 1) as u8,
                        },
                        _ => FaultCase::AckForeign(rng.next_u64() as u8),
                    };
                    p = apply(&p, &case);
                }
                p.fault = "multi".into();
                if p.mode == Mode::Paced {
                    let len = p.stream().len();
                    p.paced_cuts = random_paced_cuts(rng, len);
                    p.paced_gaps_ms = crate::c05::random_paced_gaps(rng);
                }
                p
            }));
        }
        fams
    }

    fn run(&self, plan: &ExPlan, want_trace: bool) -> RunOut {
        run_and_judge(plan, want_trace)
    }

    fn shrink(&self, plan: &ExPlan) -> Vec<ExPlan> {
        shrink_explan(plan)
    }

    fn rule_text(&self) -> String {
        "one run = one real sequence against a scripted terminal with a fault; single-fault tier enumerates, per sequence and per script prefix (non-final^d final), NACK 84xx for all 256 xx and foreign frames at the acknowledgement point, a foreign control field / an undecodable body at every reply position, end of stream (EOF) at every byte offset and ECONNRESET at every third, EPIPE on the command and on each answer; the same faults under PRNG schedules and PRNG multi-fault stacks; distinct = hash of (sequence, mode, control-field list, model outcome, fault kind, schedule class); non-trivial = a fault was planned".into()
    }
    fn assumptions(&self) -> Vec<String> {
        vec![
            "reply-alphabet table of DESIGN.md 5.2 decides 'outside the command's reply set'".into(),
            "whether a body is undecodable is asked of the library's own reply parser (zvt_parse) — C06 judges behaviour given failure".into(),
            "a positive acknowledgement is exactly 80 00 00; 84 xx 00 and any other control field are not".into(),
        ]
    }
    fn components_real(&self) -> Vec<&'static str> {
        vec![
            "zvt::sequences::* (17 Sequence::into_stream)",
            "zvt::io::PacketTransport (read_packet, write_packet, write_packet_with_ack, enum Ack)",
            "zvt_derive zvt_enum parsers",
            "tokio::io read_exact/write_all",
        ]
    }
    fn components_stub(&self) -> Vec<&'static str> {
        vec!["connection (SimConn)", "terminal (scripted, faulty)", "executor (own poll loop)"]
    }
    fn expected_probes(&self) -> Vec<&'static str> {
        vec![
            "fault.negative_ack",
            "fault.foreign_cf",
            "fault.bad_body",
            "fault.stream_cut",
            "fault.epipe",
            "fault.eof_delivered",
            "fault.reset_delivered",
            "fault.write_error_delivered",
        ]
    }
}
