//! Counting global allocator with per-thread counters: lets a check bound
//! the peak allocation of one decode ("allocates no more than a small
//! multiple of the input").
use std::alloc::{GlobalAlloc, Layout, System};
use std::cell::Cell;

pub struct Counting;

thread_local! {
    static CUR: Cell<isize> = const { Cell::new(0) };
    static PEAK: Cell<isize> = const { Cell::new(0) };
}

#[inline]
fn add(n: isize) {
    let _ = CUR.try_with(|c| {
        let v = c.get() + n;
        c.set(v);
        let _ = PEAK.try_with(|p| {
            if v > p.get() {
                p.set(v)
            }
        });
    });
}

unsafe impl GlobalAlloc for Counting {
    unsafe fn alloc(&self, l: Layout) -> *mut u8 {
        let p = System.alloc(l);
        if !p.is_null() {
            add(l.size() as isize);
        }
        p
    }
    unsafe fn dealloc(&self, p: *mut u8, l: Layout) {
        System.dealloc(p, l);
        add(-(l.size() as isize));
    }
    unsafe fn alloc_zeroed(&self, l: Layout) -> *mut u8 {
        let p = System.alloc_zeroed(l);
        if !p.is_null() {
            add(l.size() as isize);
        }
        p
    }
    unsafe fn realloc(&self, p: *mut u8, l: Layout, new: usize) -> *mut u8 {
        let q = System.realloc(p, l, new);
        if !q.is_null() {
            add(new as isize - l.size() as isize);
        }
        q
    }
}

/// Starts a measurement on this thread; returns the baseline.
pub fn begin() -> isize {
    let cur = CUR.with(|c| c.get());
    PEAK.with(|p| p.set(cur));
    cur
}

/// Peak bytes allocated above the baseline since `begin`.
pub fn peak_since(baseline: isize) -> usize {
    let p = PEAK.with(|p| p.get());
    (p - baseline).max(0) as usize
}
