//! The wire engine's executor: one future, polled in a loop with a counting
//! waker. When the future is Pending and nobody woke it, the simulator gets
//! to act (`on_idle`); if it has nothing to do either, the run is *stuck* —
//! which is an observation, not a harness failure.
use std::future::Future;
use std::pin::pin;
use std::sync::atomic::{AtomicBool, Ordering};
use std::sync::Arc;
use std::task::{Context, Poll, Wake, Waker};

struct Flag(AtomicBool);

impl Wake for Flag {
    fn wake(self: Arc<Self>) {
        self.0.store(true, Ordering::SeqCst);
    }
    fn wake_by_ref(self: &Arc<Self>) {
        self.0.store(true, Ordering::SeqCst);
    }
}

#[derive(Debug)]
pub enum Outcome<T> {
    Done(T),
    /// Pending, not woken, simulator has nothing left to deliver.
    Stuck,
    /// More polls than `max_polls` (livelock guard).
    PollLimit,
}

pub fn run<F: Future>(fut: F, mut on_idle: impl FnMut() -> bool, max_polls: u64) -> (Outcome<F::Output>, u64) {
    let flag = Arc::new(Flag(AtomicBool::new(false)));
    let waker = Waker::from(flag.clone());
    let mut cx = Context::from_waker(&waker);
    let mut fut = pin!(fut);
    let mut polls = 0u64;
    loop {
        polls += 1;
        if polls > max_polls {
            return (Outcome::PollLimit, polls);
        }
        if let Poll::Ready(v) = fut.as_mut().poll(&mut cx) {
            return (Outcome::Done(v), polls);
        }
        if flag.0.swap(false, Ordering::SeqCst) {
            continue;
        }
        if on_idle() {
            flag.0.store(false, Ordering::SeqCst);
            continue;
        }
        return (Outcome::Stuck, polls);
    }
}
