//! The wire engine's executor: one future, polled in a loop with a counting
//! waker. When the future is Pending and nobody woke it, the simulator gets
//! to act (`on_idle`); if it has nothing to do either, the run is *stuck* —
//! which is an observation, not a harness failure.
//!
//! The loop itself runs inside a per-thread tokio current-thread runtime with
//! a *paused* clock (discrete-event time): code under test that uses
//! `tokio::time`, `tokio::fs` or `spawn_blocking` finds a runtime, simulated
//! stalls are `tokio::time::Sleep`s owned by `SimConn`, and when neither the
//! future nor the simulator can move, control goes back to tokio, which jumps
//! the clock to the next timer. If there is no timer either, the next timer is
//! our own watchdog (one virtual day) and the run is reported as stuck.
use std::cell::RefCell;
use std::future::Future;
use std::pin::Pin;
use std::sync::atomic::{AtomicBool, Ordering};
use std::sync::{Arc, Mutex};
use std::task::{Context, Poll, Wake, Waker};
use std::time::Duration;

/// Virtual time after which a run that cannot move is declared stuck.
pub const WATCHDOG: Duration = Duration::from_secs(86_400);

struct Flag {
    woken: AtomicBool,
    /// tokio's waker for the driving task: a wake-up that arrives while we are
    /// parked in the runtime (a timer, a blocking task) must reach it.
    outer: Mutex<Option<Waker>>,
}

impl Wake for Flag {
    fn wake(self: Arc<Self>) {
        self.wake_by_ref();
    }
    fn wake_by_ref(self: &Arc<Self>) {
        self.woken.store(true, Ordering::SeqCst);
        if let Some(w) = self.outer.lock().unwrap().as_ref() {
            w.wake_by_ref();
        }
    }
}

#[derive(Debug)]
pub enum Outcome<T> {
    Done(T),
    /// Pending, not woken, simulator has nothing left to deliver, no timer pending.
    Stuck,
    /// More polls than `max_polls` (livelock guard).
    PollLimit,
}

struct Driven<'a, F: Future, I: FnMut() -> bool> {
    fut: Pin<&'a mut F>,
    on_idle: I,
    polls: u64,
    max_polls: u64,
    flag: Arc<Flag>,
}

impl<F: Future, I: FnMut() -> bool + Unpin> Future for Driven<'_, F, I> {
    type Output = Outcome<F::Output>;
    fn poll(mut self: Pin<&mut Self>, cx: &mut Context<'_>) -> Poll<Self::Output> {
        *self.flag.outer.lock().unwrap() = Some(cx.waker().clone());
        let waker = Waker::from(self.flag.clone());
        let mut icx = Context::from_waker(&waker);
        loop {
            self.polls += 1;
            if self.polls > self.max_polls {
                return Poll::Ready(Outcome::PollLimit);
            }
            self.flag.woken.store(false, Ordering::SeqCst);
            let this = &mut *self;
            if let Poll::Ready(v) = this.fut.as_mut().poll(&mut icx) {
                return Poll::Ready(Outcome::Done(v));
            }
            if self.flag.woken.swap(false, Ordering::SeqCst) {
                continue;
            }
            if (self.on_idle)() {
                continue;
            }
            // Neither the code under test nor the simulator can move now: let the
            // runtime advance virtual time to the next timer (a simulated stall, a
            // timer of the code under test, or the watchdog).
            return Poll::Pending;
        }
    }
}

thread_local! {
    static RT: RefCell<Option<tokio::runtime::Runtime>> = const { RefCell::new(None) };
    /// Virtual milliseconds that passed in wire-engine runs on this thread (watchdog jumps excluded).
    static SIM_MS: std::cell::Cell<u64> = const { std::cell::Cell::new(0) };
}

/// Takes (and resets) the virtual time accumulated by `run` on this thread.
pub fn take_sim_ms() -> u64 {
    SIM_MS.with(|c| c.replace(0))
}

fn new_runtime() -> tokio::runtime::Runtime {
    tokio::runtime::Builder::new_current_thread()
        .enable_time()
        .start_paused(true)
        .build()
        .expect("tokio runtime")
}

pub fn run<F: Future>(fut: F, on_idle: impl FnMut() -> bool + Unpin, max_polls: u64) -> (Outcome<F::Output>, u64) {
    // The runtime is taken out of its slot while in use: if the code under test
    // panics, the unwinding drops it and the next run gets a fresh one.
    let rt = RT.with(|c| c.borrow_mut().take()).unwrap_or_else(new_runtime);
    let flag = Arc::new(Flag {
        woken: AtomicBool::new(false),
        outer: Mutex::new(None),
    });
    let mut fut = std::pin::pin!(fut);
    let mut polls = 0u64;
    let out = rt.block_on(async {
        let t0 = tokio::time::Instant::now();
        let mut driven = Driven {
            fut: fut.as_mut(),
            on_idle,
            polls: 0,
            max_polls,
            flag: flag.clone(),
        };
        let r = tokio::time::timeout(WATCHDOG, &mut driven).await;
        polls = driven.polls;
        match r {
            Ok(o) => {
                let ms = tokio::time::Instant::now().duration_since(t0).as_millis() as u64;
                SIM_MS.with(|c| c.set(c.get() + ms));
                o
            }
            Err(_) => Outcome::Stuck,
        }
    });
    RT.with(|c| *c.borrow_mut() = Some(rt));
    (out, polls)
}
