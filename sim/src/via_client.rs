//! The wire-level properties (C04 framing, C05 answer discipline, C06 one error then silence,
//! C15 dispatch) seen through the terminal client: `zvt_feig_terminal` drives the same transport
//! and sequences through its reconnecting stream, and a change there (a time-out that cancels a
//! half-read packet and goes on with the same connection, a deadline that cuts a slow exchange
//! and sends the command again, a call that returns on the first error and keeps the connection,
//! input that is discarded before a connection is reused) breaks these properties for every user
//! of the client although the `zvt` crate is untouched. Each of the four checks therefore carries
//! a few client-engine families, chosen for its property, next to its wire-engine families; they
//! are judged by the connection-level oracle of C09 (rules R1-R5 over the per-connection event
//! log, plus the exact model when nothing went wrong), which is where such a breach shows: bytes
//! written to a connection after it failed, a command sent twice without a failure, a packet
//! handed out that the terminal never sent.
use crate::c09;
use crate::client::{ClientPlan, OpSpec};
use crate::framework::{Check, Family, RunOut, Tier};
use crate::pt::{CardKind, CardOutcome, CleanupSpec, FaultKind, FaultSpec, ResOutcome, RevOutcome};
use serde::{Deserialize, Serialize};
use std::sync::Arc;

#[derive(Clone, Serialize, Deserialize)]
pub enum Plan2<P> {
    Wire(P),
    Client(ClientPlan),
    /// A firmware upload on the wire engine (the library's second writer of packets: the data blocks
    /// of `WriteFile::into_stream`), judged by C11's oracle.
    Upload(crate::c11::C11Plan),
}

/// Data blocks of every size 0..=300 and around 1 KiB / 4 KiB / 32 KiB: whatever writes them, header
/// and body agree (the terminal's reference framing recovers id, offset and exactly the bytes).
fn upload_families(id: &str) -> Vec<Family<crate::c11::C11Plan>> {
    use crate::c11::{C11Plan, End, Req, ID_TABLE};
    use crate::exchange::Mode;
    if id != "C04" {
        return vec![];
    }
    let mut blocks: Vec<u32> = (1..=300).collect();
    blocks.extend([1000, 1023, 1024, 4095, 4096, 32767, 32768]);
    let n = blocks.len() as u64 * 2;
    vec![Family::new("upload_data_blocks_of_every_size", n, true, move |i, rng| {
        let block = blocks[(i / 2) as usize];
        // a tail of 1 byte / of block-1 bytes (for block 1: an empty tail)
        let tail = if i % 2 == 0 { 1.min(block - 1) } else { block - 1 };
        let size = 2 * block + tail;
        let pi = (i % 21) as u8;
        let fid = ID_TABLE[pi as usize].1;
        C11Plan {
            content_seed: rng.next_u64(),
            files: vec![(pi, size)],
            extra: vec![],
            block,
            password: 123456,
            requests: vec![
                Req::Data { id: fid, offset: 0 },
                Req::Data { id: fid, offset: 2 * block },
                Req::Data { id: fid, offset: block },
                Req::Data { id: fid, offset: size },
                Req::Data { id: fid, offset: size.saturating_sub(1) },
            ],
            end: End::Completion,
            mode: Mode::Lockstep,
            sched: crate::conn::Sched::whole(),
            paced_cuts: vec![],
            paced_gaps_ms: vec![],
            cut: None,
            fs_faults: vec![],
            symlinks: vec![],
            then: None,
        }
    })]
}

pub struct ViaClient<C: Check> {
    pub inner: C,
}

fn card(pre: u8) -> OpSpec {
    OpSpec::ReadCard {
        card: CardOutcome {
            pre,
            kind: CardKind::Card { uid: Some("04a1b2c3d4e5f6".into()), apps: None, nested_apps: None, no_tlv: false },
            delay_ms: 0,
        },
    }
}

fn workloads() -> Vec<Vec<OpSpec>> {
    let begin = |t: &str| OpSpec::Begin { token: t.into(), res: ResOutcome { pre: 1, prints: 1, ..ResOutcome::success() } };
    let commit = |t: &str| OpSpec::Commit { token: t.into(), amount: 700, rev: RevOutcome { pre: 1, status: true, prints: 1, ..RevOutcome::success() }, cleanup: CleanupSpec::plain() };
    let cancel = |t: &str| OpSpec::Cancel { token: t.into(), rev: RevOutcome::success(), cleanup: CleanupSpec::plain() };
    vec![
        vec![card(2), card(0), card(1)],
        vec![begin("A"), commit("A"), card(0)],
        vec![card(1), begin("A"), cancel("A"), card(0)],
    ]
}

/// One fault of each kind at every emission point of the calls (the handshake and Feig::new's
/// configure are C09's own business), a further call always follows.
fn single_faults(name: &'static str, kinds: Vec<FaultKind>) -> Family<ClientPlan> {
    let wl = workloads();
    let mut cases: Vec<(usize, u16, FaultKind)> = vec![];
    for (wi, ops) in wl.iter().enumerate() {
        let pts = c09::dry_points(ops, 2);
        for p in 13..=pts {
            for k in &kinds {
                cases.push((wi, p, *k));
            }
        }
    }
    let (cases, wl) = (Arc::new(cases), Arc::new(wl));
    Family::new(name, cases.len() as u64, true, move |i, _| {
        let (wi, point, kind) = cases[i as usize];
        let mut p = ClientPlan::plain(wl[wi].clone());
        p.cfg.max_tx = 2;
        p.faults = vec![FaultSpec { conn: 0, point, kind }];
        p.pt.nack_keeps_connection = true;
        p.label = format!("via_client/{:?}", kind);
        p
    })
}

/// A slow but healthy terminal: every packet within 10 s of the previous one, a card reading as a
/// whole inside the configured time; packets in two pieces with a pause of up to 150 ms - below any
/// sensible time-out policy. No failure, so every command goes out once, on the one connection.
fn slow_families() -> Vec<Family<ClientPlan>> {
    vec![
        Family::new("client_slow_but_healthy_terminal", 3 * 4 * 2, true, |i, _| {
            let mut p = ClientPlan::plain(workloads()[(i % 3) as usize].clone());
            p.cfg.max_tx = 2;
            // every other run the intermediate statuses carry a time-out byte of "1" (a minute, by the
            // specification): information for the display, not a deadline for the next packet
            if i / 12 == 1 {
                p.pt.intermediate_timeout = Some(1);
            }
            let i = i % 12;
            // (every packet within 10 s of the previous one; a card reading - up to three packets here -
            // as a whole inside the configured time)
            match i / 3 {
                0 => {
                    p.cfg.read_card_timeout = 15;
                    p.pt.pace_ms = 4_000;
                }
                1 => {
                    p.cfg.read_card_timeout = 60;
                    p.pt.pace_ms = 7_000;
                }
                2 => {
                    p.cfg.read_card_timeout = 5;
                    p.pt.pace_ms = 1_500;
                }
                _ => {
                    p.cfg.read_card_timeout = 30;
                    p.pt.pace_ms = 6_000;
                }
            }
            p.label = "via_client/slow".into();
            p
        }),
        Family::new("client_packets_in_two_pieces_with_short_pauses", 3 * 4 * 3, true, |i, _| {
            let mut p = ClientPlan::plain(workloads()[(i % 3) as usize].clone());
            p.cfg.max_tx = 2;
            p.cfg.read_card_timeout = 15;
            let bytes = [1u8, 2, 3, 5][((i / 3) % 4) as usize];
            let ms = [50u32, 100, 150][(i / 12) as usize];
            p.pt.frame_pause = Some((bytes, ms, 2));
            p.label = "via_client/pieces".into();
            p
        }),
    ]
}

/// Unsolicited bytes (a complete packet, one byte, a partial header, the start of a long packet)
/// behind the last frame of every exchange; a further call always follows on that connection.
fn stale_behind_final_frames() -> Family<ClientPlan> {
    use crate::conn::Ev;
    let wl = workloads();
    let mut cases: Vec<(usize, u16, u8)> = vec![];
    for (wi, ops) in wl.iter().enumerate() {
        let mut p = ClientPlan::plain(ops.clone());
        p.cfg.max_tx = 2;
        let run = crate::client::run(&p);
        let log = run.log.lock().unwrap();
        // emission points of connection 0 that are followed by a command of the client (or nothing)
        let mut point = 0u16;
        let mut last_release: Option<u16> = None;
        let mut finals: Vec<u16> = vec![];
        for e in log.entries.iter().filter(|e| e.conn == 0) {
            match &e.ev {
                Ev::Release(_) => {
                    point += 1;
                    last_release = Some(point);
                }
                Ev::Write(b) if b.len() >= 2 && (b[0], b[1]) != (0x80, 0x00) => {
                    if let Some(p) = last_release.take() {
                        finals.push(p);
                    }
                }
                _ => {}
            }
        }
        for p in finals.into_iter().filter(|p| *p >= 13) {
            for form in 0..4u8 {
                cases.push((wi, p, form));
            }
        }
    }
    let (cases, wl) = (Arc::new(cases), Arc::new(wl));
    Family::new("client_unsolicited_bytes_behind_the_last_frame_of_every_exchange", cases.len() as u64, true, move |i, _| {
        let (wi, point, form) = cases[i as usize];
        let mut p = ClientPlan::plain(wl[wi].clone());
        p.cfg.max_tx = 2;
        p.faults = vec![FaultSpec { conn: 0, point, kind: FaultKind::StaleAfter(form) }];
        p.label = "via_client/stale".into();
        p
    })
}

/// A failure in a call, then a failure of another kind in the handshake of the replacement connection
/// (behind its registration completion / identity reply): nothing more is written there either.
fn fault_then_fault_in_retry_handshake(kinds: Vec<FaultKind>) -> Family<ClientPlan> {
    let wl = workloads();
    let n = (wl.len() * kinds.len() * 3) as u64;
    let wl = Arc::new(wl);
    Family::new("client_failure_then_failure_in_the_retry_handshake", n, true, move |i, _| {
        let kind = kinds[(i as usize) % kinds.len()];
        let point = [2u16, 4, 3][(i as usize / kinds.len()) % 3];
        let mut p = ClientPlan::plain(wl[(i as usize / kinds.len() / 3) % wl.len()].clone());
        p.cfg.max_tx = 2;
        p.faults = vec![FaultSpec { conn: 0, point: 14, kind: FaultKind::Eof }, FaultSpec { conn: 1, point, kind }];
        p.pt.nack_keeps_connection = true;
        p.label = format!("via_client/retry_handshake/{:?}", kind);
        p
    })
}

/// C05 through the client: in a run without any fault (every packet within 10 s, every exchange within
/// 30 s) each command of a call goes out once - a client that gives a running exchange up on its own
/// clock and sends the command again has sent it twice.
fn command_once(plan: &ClientPlan, out: &mut RunOut) {
    if !plan.faults.is_empty() || !plan.connects.is_empty() || !out.violations.is_empty() {
        return;
    }
    let run = crate::client::run(plan);
    let pt = run.pt.lock().unwrap();
    if !pt.fired.is_empty() || !pt.anomalies.is_empty() {
        return;
    }
    for o in run.ops.iter().filter(|o| o.index >= 0) {
        let reqs: Vec<&crate::pt::ReqLog> = pt.requests.iter().filter(|r| r.op == o.index && !r.handshake).collect();
        for (i, r1) in reqs.iter().enumerate() {
            // (the pending query may legitimately be asked again within a clean-up)
            if r1.frame.len() >= 6 && (r1.frame[0], r1.frame[1]) == (0x06, 0x23) && r1.frame[3..6] == [0x87, 0xff, 0xff] {
                continue;
            }
            if let Some(r2) = reqs.iter().skip(i + 1).find(|r2| r2.frame == r1.frame && r2.conn != r1.conn) {
                out.fail(
                    "command_repeated",
                    format!("via_client/{:02x}{:02x}", r1.frame[0], r1.frame[1]),
                    format!("{}: no fault anywhere in the run, yet {} went out on connection {} and again on connection {}", o.name, crate::conn::hex(&r1.frame[..r1.frame.len().min(12)]), r1.conn, r2.conn),
                );
                return;
            }
        }
    }
}

pub fn client_families(id: &str, _tier: Tier) -> Vec<Family<ClientPlan>> {
    let mut f = match id {
        // framing: a packet that stops half-way (stall, end of stream) - the rest of it, or the next
        // command's answers, must never be read from the middle
        "C04" => vec![single_faults(
            "client_packet_stops_half_way_at_every_point",
            vec![FaultKind::StallMid(1), FaultKind::StallMid(2), FaultKind::StallMid(4), FaultKind::EofMid(1), FaultKind::EofMid(4), FaultKind::Silence],
        )],
        // answer discipline: command once, every packet answered once - nothing is repeated without a failure
        "C05" => vec![single_faults("client_silence_or_loss_at_every_point", vec![FaultKind::Silence, FaultKind::Eof, FaultKind::EpipeAfter])],
        // one error, then silence: nothing more is written to the connection the failure happened on
        "C06" => vec![single_faults(
            "client_failed_exchange_at_every_point",
            vec![FaultKind::Nack(0x9c), FaultKind::Nack(0x00), FaultKind::Foreign(0x06, 0xd8), FaultKind::BadBody, FaultKind::Junk, FaultKind::Eof, FaultKind::Reset],
        ), fault_then_fault_in_retry_handshake(vec![FaultKind::Foreign(0x06, 0xd8), FaultKind::BadBody, FaultKind::Junk])],
        // dispatch: a packet outside the reply set is a failure wherever it turns up
        "C15" => vec![single_faults(
            "client_foreign_packet_at_every_point",
            vec![FaultKind::Foreign(0x06, 0xd8), FaultKind::Foreign(0x04, 0x0e), FaultKind::Foreign(0x80, 0x01), FaultKind::Foreign(0x06, 0x0e), FaultKind::BadBody],
        ), stale_behind_final_frames()],
        _ => vec![],
    };
    f.extend(slow_families());
    f
}

impl<C: Check> Check for ViaClient<C> {
    type Plan = Plan2<C::Plan>;
    fn id(&self) -> &'static str {
        self.inner.id()
    }
    fn level(&self) -> &'static str {
        self.inner.level()
    }
    fn families(&self, tier: Tier, seed: u64) -> Vec<Family<Self::Plan>> {
        let mut out: Vec<Family<Self::Plan>> = vec![];
        for f in self.inner.families(tier, seed) {
            let make = f.make;
            out.push(Family { name: f.name, count: f.count, exhaustive: f.exhaustive, make: Box::new(move |i, r| Plan2::Wire(make(i, r))) });
        }
        for f in client_families(self.inner.id(), tier) {
            let make = f.make;
            out.push(Family { name: f.name, count: f.count, exhaustive: f.exhaustive, make: Box::new(move |i, r| Plan2::Client(make(i, r))) });
        }
        for f in upload_families(self.inner.id()) {
            let make = f.make;
            out.push(Family { name: f.name, count: f.count, exhaustive: f.exhaustive, make: Box::new(move |i, r| Plan2::Upload(make(i, r))) });
        }
        out
    }
    fn run(&self, plan: &Self::Plan, want_trace: bool) -> RunOut {
        match plan {
            Plan2::Wire(p) => self.inner.run(p, want_trace),
            Plan2::Client(p) => {
                let mut out = c09::C09.run(p, want_trace);
                // C09's own clauses - an exchange that completes keeps its connection (R3), the client
                // recovers after the last fault (R5) - are C09's check's business: a change that breaks only
                // them leaves the wire properties intact
                out.violations.retain(|v| !matches!(v.rule.as_str(), "needless_reconnect" | "no_recovery"));
                if self.inner.id() == "C05" {
                    command_once(p, &mut out);
                }
                out
            }
            Plan2::Upload(p) => crate::c11::C11.run(p, want_trace),
        }
    }
    fn shrink(&self, plan: &Self::Plan) -> Vec<Self::Plan> {
        match plan {
            Plan2::Wire(p) => self.inner.shrink(p).into_iter().map(Plan2::Wire).collect(),
            Plan2::Client(p) => c09::C09.shrink(p).into_iter().map(Plan2::Client).collect(),
            Plan2::Upload(p) => crate::c11::C11.shrink(p).into_iter().map(Plan2::Upload).collect(),
        }
    }
    fn rule_text(&self) -> String {
        format!(
            "{}; additionally, through the terminal client (real Feig, reconnecting stream and handshake on the paused clock against the simulated terminal): one fault of the kinds that matter for this property at every emission point of three call histories, a slow but healthy terminal, packets in two pieces below the time-out - judged by the connection-level rules R1-R5 of C09 and, without a fault, by the exact model (every command once, one connection)",
            self.inner.rule_text()
        )
    }
    fn assumptions(&self) -> Vec<String> {
        let mut a = self.inner.assumptions();
        a.push("client-engine families: the assumptions of C09's oracle (lockstep terminal, an abort completes an exchange)".into());
        a
    }
    fn components_real(&self) -> Vec<&'static str> {
        let mut v = self.inner.components_real();
        v.push("client-engine families: zvt_feig_terminal::feig::Feig, zvt_feig_terminal::stream (reconnecting stream, handshake)");
        v
    }
    fn components_stub(&self) -> Vec<&'static str> {
        let mut v = self.inner.components_stub();
        v.push("client-engine families: TCP socket + connect (SimNet behind the zvt_verif hook), payment terminal (stateful model), clock (tokio paused)");
        v
    }
    fn expected_probes(&self) -> Vec<&'static str> {
        self.inner.expected_probes()
    }
}
