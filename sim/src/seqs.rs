//! The 17 command sequences plus the firmware upload: independent statement
//! of each command's reply alphabet (DESIGN.md 5.2), canonical inputs with
//! their reference encoding, reply builders, and the monomorphic drivers that
//! run the *real* `Sequence::into_stream` over a SimConn.
use crate::conn::{ConnHandle, SimConn};
use crate::refcodec::{self as rc, Pkt, Tlv};
use crate::rng::Rng;
use serde::{Deserialize, Serialize};
use std::sync::{Arc, Mutex};
use tokio_stream::StreamExt;
use zvt::io::PacketTransport;
use zvt::sequences::Sequence;
use zvt::{feig, packets, sequences, ZvtSerializer};

#[derive(Clone, Copy, Debug, PartialEq, Eq, Hash, Serialize, Deserialize)]
pub enum SeqId {
    Registration,
    ReadCard,
    Initialization,
    SetTerminalId,
    ResetTerminal,
    Diagnosis,
    EndOfDay,
    Authorization,
    Reservation,
    PartialReversal,
    PreAuthReversal,
    PrintSystemConfiguration,
    SelectLanguage,
    StatusEnquiry,
    GetSystemInfo,
    FactoryReset,
    ChangeHostConfiguration,
}

pub const ALL_SEQS: [SeqId; 17] = [
    SeqId::Registration,
    SeqId::ReadCard,
    SeqId::Initialization,
    SeqId::SetTerminalId,
    SeqId::ResetTerminal,
    SeqId::Diagnosis,
    SeqId::EndOfDay,
    SeqId::Authorization,
    SeqId::Reservation,
    SeqId::PartialReversal,
    SeqId::PreAuthReversal,
    SeqId::PrintSystemConfiguration,
    SeqId::SelectLanguage,
    SeqId::StatusEnquiry,
    SeqId::GetSystemInfo,
    SeqId::FactoryReset,
    SeqId::ChangeHostConfiguration,
];

pub type Cf = (u8, u8);

pub const CF_ACK: Cf = (0x80, 0x00);
pub const CF_COMPLETION: Cf = (0x06, 0x0f);
pub const CF_ABORT: Cf = (0x06, 0x1e);
pub const CF_INTERMEDIATE: Cf = (0x04, 0xff);
pub const CF_STATUS: Cf = (0x04, 0x0f);
pub const CF_PRINT_LINE: Cf = (0x06, 0xd1);
pub const CF_PRINT_BLOCK: Cf = (0x06, 0xd3);
pub const CF_SET_TIME: Cf = (0x04, 0x01);
pub const CF_REQUEST_DATA: Cf = (0x04, 0x0c);

pub struct SeqInfo {
    pub id: SeqId,
    pub name: &'static str,
    pub cmd: Cf,
    pub non_final: &'static [Cf],
    pub finals: &'static [Cf],
    /// The exchange consists of exactly one reply, whatever it is.
    pub single_reply: bool,
}

/// Independent statement of which control fields may follow a command's
/// acknowledgement and which of them end the exchange (ZVT 13.x chapter 2).
pub fn info(id: SeqId) -> SeqInfo {
    use SeqId::*;
    let (name, cmd, non_final, finals, single): (&str, Cf, &'static [Cf], &'static [Cf], bool) = match id {
        Registration => ("Registration", (0x06, 0x00), &[], &[CF_COMPLETION], true),
        ResetTerminal => ("ResetTerminal", (0x06, 0x18), &[], &[CF_COMPLETION], true),
        SelectLanguage => ("SelectLanguage", (0x08, 0x30), &[], &[CF_COMPLETION], true),
        FactoryReset => ("FactoryReset", (0x0f, 0xa1), &[], &[CF_COMPLETION], true),
        SetTerminalId => ("SetTerminalId", (0x06, 0x1b), &[], &[CF_COMPLETION, CF_ABORT], true),
        GetSystemInfo => ("GetSystemInfo", (0x0f, 0xa1), &[], &[CF_COMPLETION, CF_ABORT], true),
        ChangeHostConfiguration => (
            "ChangeHostConfiguration",
            (0x08, 0x13),
            &[],
            &[CF_COMPLETION, CF_ABORT],
            true,
        ),
        ReadCard => (
            "ReadCard",
            (0x06, 0xc0),
            &[CF_INTERMEDIATE],
            &[CF_STATUS, CF_ABORT],
            false,
        ),
        Initialization => (
            "Initialization",
            (0x06, 0x93),
            &[CF_INTERMEDIATE, CF_PRINT_LINE, CF_PRINT_BLOCK],
            &[CF_COMPLETION, CF_ABORT],
            false,
        ),
        Diagnosis => (
            "Diagnosis",
            (0x06, 0x70),
            &[CF_INTERMEDIATE, CF_SET_TIME, CF_PRINT_LINE, CF_PRINT_BLOCK],
            &[CF_COMPLETION, CF_ABORT],
            false,
        ),
        EndOfDay => (
            "EndOfDay",
            (0x06, 0x50),
            &[CF_INTERMEDIATE, CF_STATUS, CF_PRINT_LINE, CF_PRINT_BLOCK],
            &[CF_COMPLETION, CF_ABORT],
            false,
        ),
        Authorization => (
            "Authorization",
            (0x06, 0x01),
            &[CF_INTERMEDIATE, CF_STATUS, CF_PRINT_LINE, CF_PRINT_BLOCK],
            &[CF_COMPLETION, CF_ABORT],
            false,
        ),
        Reservation => (
            "Reservation",
            (0x06, 0x22),
            &[CF_INTERMEDIATE, CF_STATUS, CF_PRINT_LINE, CF_PRINT_BLOCK],
            &[CF_COMPLETION, CF_ABORT],
            false,
        ),
        PartialReversal => (
            "PartialReversal",
            (0x06, 0x23),
            &[CF_INTERMEDIATE, CF_STATUS, CF_PRINT_LINE, CF_PRINT_BLOCK],
            &[CF_COMPLETION, CF_ABORT],
            false,
        ),
        PreAuthReversal => (
            "PreAuthReversal",
            (0x06, 0x25),
            &[CF_INTERMEDIATE, CF_STATUS, CF_PRINT_LINE, CF_PRINT_BLOCK],
            &[CF_COMPLETION, CF_ABORT],
            false,
        ),
        PrintSystemConfiguration => (
            "PrintSystemConfiguration",
            (0x06, 0x1a),
            &[CF_PRINT_LINE, CF_PRINT_BLOCK],
            &[CF_COMPLETION],
            false,
        ),
        StatusEnquiry => (
            "StatusEnquiry",
            (0x05, 0x01),
            &[CF_INTERMEDIATE, CF_PRINT_LINE, CF_PRINT_BLOCK],
            &[CF_COMPLETION],
            false,
        ),
    };
    SeqInfo {
        id,
        name,
        cmd,
        non_final,
        finals,
        single_reply: single,
    }
}

impl SeqInfo {
    pub fn in_alphabet(&self, cf: Cf) -> bool {
        self.non_final.contains(&cf) || self.finals.contains(&cf)
    }
    /// Does a packet with this control field end the exchange?
    pub fn is_final(&self, cf: Cf) -> bool {
        self.single_reply || self.finals.contains(&cf)
    }
    pub fn alphabet(&self) -> Vec<Cf> {
        let mut v = self.non_final.to_vec();
        v.extend_from_slice(self.finals);
        v
    }
}

// ---------------------------------------------------------------- inputs

/// Abstract input values; every sequence builds its command from these, and
/// the reference encoder builds the expected frame from the same values.
#[derive(Clone, Debug, PartialEq, Serialize, Deserialize)]
pub struct InParams {
    pub password: u32,
    pub amount: u64,
    pub currency: u16,
    pub receipt: u16,
    pub byte: u8,
    pub terminal_id: u32,
    pub token: String,
    pub ip: u32,
    pub port: u16,
    /// The optional fields of an Authorization / Reservation (time-out, maximum number of status
    /// informations, pump number, expiry date, additional text, card type): None = absent.
    #[serde(default)]
    pub opt: Option<OptIn>,
}

#[derive(Clone, Debug, PartialEq, Serialize, Deserialize)]
pub struct OptIn {
    pub timeout: Option<u8>,
    pub max_status: Option<u8>,
    pub pump: Option<u8>,
    pub expiry: Option<u16>,
    pub text: Option<String>,
    pub card_type: Option<u8>,
}

impl InParams {
    pub fn fixed() -> Self {
        InParams {
            password: 123456,
            amount: 2500,
            currency: 978,
            receipt: 231,
            byte: 0x40,
            terminal_id: 52523535,
            token: "384HH2".to_string(),
            ip: 0xd5b7_1369,
            port: 30401,
            opt: None,
        }
    }

    pub fn random(rng: &mut Rng) -> Self {
        let digits = |rng: &mut Rng, max_digits: u32| -> u64 {
            let d = rng.range(1, max_digits as u64) as u32;
            rng.below(10u64.pow(d))
        };
        let tok_len = rng.usize_below(12);
        let token: String = (0..tok_len)
            .map(|_| *rng.pick(&b"ABCDEFGHJKLMNPQRSTUVWXYZ0123456789-_ "[..]) as char)
            .collect();
        // no trailing NUL/space issues: CP437 text is compared after decode
        InParams {
            // six significant digits so that variable-width BCD (ff40) stays 3 bytes
            password: rng.range(100_000, 999_999) as u32,
            amount: digits(rng, 12),
            currency: *rng.pick(&[752u16, 826, 978]),
            receipt: rng.range(1, 9999) as u16,
            byte: rng.next_u64() as u8,
            terminal_id: digits(rng, 8) as u32,
            token,
            ip: rng.next_u64() as u32,
            port: rng.next_u64() as u16,
            opt: if rng.pct(40) {
                let some = |rng: &mut Rng| rng.pct(50);
                Some(OptIn {
                    timeout: if some(rng) { Some(rng.next_u64() as u8) } else { None },
                    // small values matter: a terminal may well send more status informations than that
                    max_status: if some(rng) { Some(*rng.pick(&[0u8, 1, 2, 3, 5, 255])) } else { None },
                    pump: if some(rng) { Some(rng.next_u64() as u8) } else { None },
                    expiry: if some(rng) { Some((rng.range(0, 99) * 100 + rng.range(1, 12)) as u16) } else { None },
                    text: if some(rng) {
                        let n = *rng.pick(&[0usize, 1, 20, 99, 100, 251, 300, 999]);
                        Some((0..n).map(|i| (b'a' + (i % 26) as u8) as char).collect())
                    } else {
                        None
                    },
                    card_type: if some(rng) { Some(rng.next_u64() as u8) } else { None },
                })
            } else {
                None
            },
        }
    }
}

/// The optional BMPs of an Authorization / Reservation, by the reference codec.
fn ref_opt(mut pkt: Pkt, opt: &Option<OptIn>) -> Pkt {
    let Some(o) = opt else { return pkt };
    if let Some(v) = o.expiry {
        pkt = pkt.bcd(0x0e, v as u64);
    }
    if let Some(v) = o.timeout {
        pkt = pkt.byte(0x01, v);
    }
    if let Some(v) = o.max_status {
        pkt = pkt.byte(0x02, v);
    }
    if let Some(v) = o.pump {
        pkt = pkt.byte(0x05, v);
    }
    if let Some(t) = &o.text {
        pkt = pkt.raw(0x3c, t.as_bytes());
    }
    if let Some(v) = o.card_type {
        pkt = pkt.byte(0x8a, v);
    }
    pkt
}

fn bmp60(token: &str) -> Tlv {
    Tlv::cons(
        0xe9,
        vec![
            Tlv::prim(0x1f62, b"AC"),
            Tlv::prim(0x1f63, token.as_bytes()),
        ],
    )
}

/// Reference encoding of the command each sequence sends for `p`.
pub fn ref_command(id: SeqId, p: &InParams) -> Pkt {
    use SeqId::*;
    let pw = rc::bcd(p.password as u64, 3);
    match id {
        Registration => Pkt::new(0x06, 0x00)
            .pos(&pw)
            .pos(&[p.byte])
            .pos(&rc::bcd(p.currency as u64, 2)),
        ReadCard => Pkt::new(0x06, 0xc0)
            .pos(&[p.byte])
            .byte(0x19, 0x10)
            .byte(0xfc, 2)
            .tlv(&[Tlv::prim(0x1f15, &[0xd0]), Tlv::prim(0x1f60, &[7])]),
        Initialization => Pkt::new(0x06, 0x93).pos(&pw),
        SetTerminalId => Pkt::new(0x06, 0x1b).pos(&pw).bcd(0x29, p.terminal_id as u64),
        ResetTerminal => Pkt::new(0x06, 0x18),
        Diagnosis => Pkt::new(0x06, 0x70).tlv(&[Tlv::prim(0x1b, &[p.byte % 5 + 1])]),
        EndOfDay => Pkt::new(0x06, 0x50).pos(&pw),
        Authorization => ref_opt(
            Pkt::new(0x06, 0x01).bcd(0x04, p.amount).bcd(0x49, p.currency as u64).byte(0x19, p.byte),
            &p.opt,
        )
        .tlv(&[bmp60(&p.token)]),
        Reservation => ref_opt(
            Pkt::new(0x06, 0x22)
                .bcd(0x04, p.amount)
                .bcd(0x49, p.currency as u64)
                .byte(0x19, p.byte)
                .bcd(0x0b, (p.terminal_id % 1_000_000) as u64),
            &p.opt,
        )
        .tlv(&[bmp60(&p.token)]),
        PartialReversal => Pkt::new(0x06, 0x23)
            .bcd(0x87, p.receipt as u64)
            .bcd(0x04, p.amount)
            .byte(0x19, p.byte)
            .bcd(0x49, p.currency as u64)
            .tlv(&[bmp60(&p.token)]),
        PreAuthReversal => Pkt::new(0x06, 0x25)
            .byte(0x19, p.byte)
            .bcd(0x49, p.currency as u64)
            .bcd(0x87, p.receipt as u64),
        PrintSystemConfiguration => Pkt::new(0x06, 0x1a),
        SelectLanguage => Pkt::new(0x08, 0x30).pos(&[effective_language(p.byte)]),
        StatusEnquiry => Pkt::new(0x05, 0x01).pos(&pw).byte(0x03, p.byte),
        GetSystemInfo => Pkt::new(0x0f, 0xa1).pos(&[0x00, 0x01]),
        FactoryReset => Pkt::new(0x0f, 0xa1).pos(&pw).pos(&[0x02, 0x55]),
        ChangeHostConfiguration => {
            let mut host = p.ip.to_be_bytes().to_vec();
            host.extend(p.port.to_be_bytes());
            host.push(p.byte);
            Pkt::new(0x08, 0x13).tlv(&[Tlv::cons(
                0xe4,
                vec![Tlv::prim(0xff40, &pw), Tlv::prim(0xff41, &host)],
            )])
        }
    }
}

// ---------------------------------------------------------------- replies

/// One element of a reply script.
#[derive(Clone, Debug, PartialEq, Serialize, Deserialize)]
pub struct Reply {
    pub cf: Cf,
    /// Distinguishes otherwise equal packets (order / attribution).
    pub marker: u8,
}

/// A well-formed frame of control field `cf`, valid for the packet type the
/// sequence uses for it, carrying `marker`.
pub fn reply_frame(id: SeqId, r: &Reply) -> Vec<u8> {
    let m = r.marker;
    match r.cf {
        // markers 6 and 14 (mod 16) select the smallest and the most decorated legal form of a packet:
        // empty texts, empty containers, only the mandatory field / trailing TLV containers
        CF_INTERMEDIATE if m % 16 == 14 => {
            // status, time-out, TLV container with display texts (tag 24 { 07 line, 07 line })
            let lines = Tlv::cons(0x24, vec![Tlv::prim(0x07, format!("Bitte warten {m}").as_bytes()), Tlv::prim(0x07, b"")]);
            let mut body = vec![m, 0x15];
            let t = lines.encode();
            body.push(0x06);
            body.extend(rc::ber_len(t.len()));
            body.extend(t);
            rc::apdu((0x04, 0xff), &body)
        }
        CF_INTERMEDIATE => rc::intermediate(m, if m % 3 == 0 { Some(m % 100) } else { None }),
        CF_STATUS if m % 16 == 6 => rc::status_info(&rc::Status { result_code: Some(0), ..rc::Status::default() }),
        // the status information of a payment: card number, track 2, expiry, sequence number, names
        CF_STATUS if m % 16 == 14 => rc::status_info(&rc::Status {
            result_code: Some(0),
            amount: Some(m as u64 * 7 + 1),
            receipt: Some(m as u64 + 1),
            trace: Some(m as u64 + 900),
            currency: Some(978),
            expiry: Some(2405),
            card_seq: Some(if m % 32 == 14 { 1 } else { 9999 }),
            card_type: Some(0x60),
            pan: Some(vec![0x55, 0x98, 0x84, 0x55, 0x55, 0x54, 0x80, 0x74]),
            track2: Some(vec![0x55, 0x98, 0x84, 0x55, 0x55, 0x54, 0x80, 0x74, 0xd2, 0x40, 0x5f]),
            aid: Some(*b"750071\0\0"),
            vu: Some(*b"804011926      "),
            card_name: Some(b"MasterCard\0".to_vec()),
            zvt_card_type: Some(6),
            zvt_card_type_id: Some(1),
            turnover: Some(m as u64 + 100),
            ..rc::Status::default()
        }),
        CF_PRINT_LINE if m % 16 == 6 => rc::print_line(m, b""),
        CF_PRINT_BLOCK if m % 16 == 6 => rc::print_text_block(m % 4, &[]),
        CF_PRINT_BLOCK if m % 16 == 14 => rc::print_text_block(m % 4, &[b"first".to_vec(), vec![], b"x".to_vec(), vec![]]),
        CF_ABORT if m % 16 == 14 => {
            // result code [currency] TLV container { 1F16 extended code, 1F17 text } (ZVT 2.2.9 form)
            let mut body = vec![m];
            if matches!(id, SeqId::Reservation | SeqId::Authorization) {
                body.extend([0x09, 0x78]);
            }
            let mut t = Tlv::prim(0x1f16, &[0x05]).encode();
            t.extend(Tlv::prim(0x1f17, b"Karte nicht zugelassen").encode());
            body.push(0x06);
            body.extend(rc::ber_len(t.len()));
            body.extend(t);
            rc::apdu((0x06, 0x1e), &body)
        }
        // every eighth marker makes the packet long enough for the extended
        // (5-byte) APDU header and for 2-/3-byte BER lengths
        CF_STATUS => rc::status_info(&rc::Status {
            result_code: Some(0),
            amount: Some(m as u64 * 7 + 1),
            receipt: Some(m as u64 + 1),
            trace: if m % 2 == 0 { Some(m as u64 + 900) } else { None },
            currency: Some(978),
            text: if m % 8 == 7 { Some(long_text(m, 200 + m as usize * 3)) } else { None },
            ..rc::Status::default()
        }),
        CF_PRINT_LINE => {
            if m % 8 == 7 {
                // bodies (1 + text) of 251.., exactly 4096, 4097, 8192, 12288, 16384, 40001 and 65535 bytes
                let n = [250 + m as usize, 4095, 300, 4096, 260, 8191, 1000, 12287, 255, 16383, 2000, 40000, 270, 65534, 500, 253][(m as usize / 8) % 16];
                rc::print_line(m, &long_text(m, n))
            } else {
                rc::print_line(m, format!("line {m}").as_bytes())
            }
        }
        CF_PRINT_BLOCK => {
            if m % 8 == 7 {
                let (count, width) = [(6 + m as usize % 30, 40), (120, 40), (20, 250), (3, 300)][(m as usize / 8) % 4];
                let lines: Vec<Vec<u8>> = (0..count).map(|i| long_text(m.wrapping_add(i as u8), width)).collect();
                rc::print_text_block(m % 4, &lines)
            } else {
                rc::print_text_block(m % 4, &[format!("block {m}").into_bytes(), b"second line".to_vec()])
            }
        }
        // (a real calendar date and time of day: a decoder that validates them is within its rights)
        CF_SET_TIME => rc::set_time_and_date(230_100 + 1 + m as u64 % 28, 120_000 + m as u64 % 60),
        CF_REQUEST_DATA => rc::request_for_data(Some(0x13), Some(m as u32), true, true),
        CF_COMPLETION => match id {
            SeqId::GetSystemInfo => {
                let tid = format!("{:08}", 52520000u32 + m as u32);
                rc::sysinfo(
                    b"17FD1E3C",
                    b"GER-APP-v2.0.9   ",
                    tid.as_bytes().try_into().unwrap(),
                    if m % 2 == 0 { b"24.4" } else { b"8.0" },
                )
            }
            _ => {
                if m % 2 == 0 {
                    rc::completion()
                } else {
                    rc::completion_with(Some(m), Some(52523535), Some(978))
                }
            }
        },
        CF_ABORT => match id {
            SeqId::PartialReversal | SeqId::PreAuthReversal | SeqId::EndOfDay if m % 2 == 1 => {
                rc::abort(m, rc::AbortExtra::Receipt(m as u16 + 1))
            }
            _ => rc::abort(m, rc::AbortExtra::None),
        },
        (c, i) => rc::apdu((c, i), &[m]),
    }
}

fn long_text(m: u8, n: usize) -> Vec<u8> {
    (0..n).map(|i| b'A' + ((i + m as usize) % 26) as u8).collect()
}

/// Debug rendering of `frame` decoded on its own by every shipped packet
/// type that carries the frame's control field (the property's comparator:
/// "exactly the content the variant's packet type decodes on its own").
pub fn own_decodes(frame: &[u8]) -> Vec<String> {
    fn d<T: ZvtSerializer + std::fmt::Debug>(frame: &[u8], out: &mut Vec<String>)
    where
        zvt::encoding::Default: zvt::encoding::Encoding<T>,
    {
        if let Ok(Ok((v, _))) =
            std::panic::catch_unwind(std::panic::AssertUnwindSafe(|| T::zvt_deserialize(frame)))
        {
            out.push(format!("{:?}", v));
        }
    }
    let mut out = vec![];
    if frame.len() < 2 {
        return out;
    }
    match (frame[0], frame[1]) {
        CF_INTERMEDIATE => d::<packets::IntermediateStatusInformation>(frame, &mut out),
        CF_STATUS => d::<packets::StatusInformation>(frame, &mut out),
        CF_PRINT_LINE => d::<packets::PrintLine>(frame, &mut out),
        CF_PRINT_BLOCK => d::<packets::PrintTextBlock>(frame, &mut out),
        CF_SET_TIME => d::<packets::SetTimeAndDate>(frame, &mut out),
        CF_REQUEST_DATA => d::<feig::packets::RequestForData>(frame, &mut out),
        CF_COMPLETION => {
            d::<packets::CompletionData>(frame, &mut out);
            d::<packets::ReceiptPrintoutCompletion>(frame, &mut out);
            d::<feig::packets::CVendFunctionsEnhancedSystemInformationCompletion>(frame, &mut out);
        }
        CF_ABORT => {
            d::<packets::Abort>(frame, &mut out);
            d::<packets::ReservationAbort>(frame, &mut out);
            d::<packets::PartialReversalAbort>(frame, &mut out);
        }
        CF_ACK => {
            d::<packets::Ack>(frame, &mut out);
            d::<feig::packets::WriteData>(frame, &mut out);
        }
        _ => {}
    }
    let _ = crate::framework::take_panic();
    out
}

/// Splits `Variant(Inner { .. })` into (variant, inner).
pub fn split_variant(debug: &str) -> Option<(&str, &str)> {
    let (v, rest) = debug.split_once('(')?;
    let inner = rest.strip_suffix(')')?;
    Some((v, inner))
}

/// Leading type name of a derive-style `Debug` rendering (`Type { .. }`, `Type(..)`, `Type`).
fn type_name(debug: &str) -> &str {
    debug.split(|c: char| c == ' ' || c == '{' || c == '(').next().unwrap_or("")
}

/// The property's comparator for one yielded item: `item` is the `Debug` of what the reply parser
/// returned for `frame`. Verdict: Some(true) = it carries exactly what a shipped packet type of
/// that control field decodes from the frame on its own; Some(false) = it names such a type but
/// with other content; None = it cannot be compared (the item is not rendered in derive style, or
/// names a packet type this harness does not know - a hand-written `Debug`, a new packet type).
pub fn item_matches_own_decode(item: &str, frame: &[u8]) -> Option<bool> {
    let own = own_decodes(frame);
    let (_, inner) = split_variant(item)?;
    if own.iter().any(|o| o == inner) {
        return Some(true);
    }
    let name = type_name(inner);
    if !name.is_empty() && own.iter().any(|o| type_name(o) == name) {
        return Some(false);
    }
    None
}

/// Does the library's own reply parser of `id` accept `frame` as a packet of a type this harness
/// knows for that control field, with exactly that type's own decode? Then the library's reply set
/// is larger than the table of DESIGN 5.2 (a variant the specification allows was added): such an
/// exchange is not judged, because the table cannot say whether the packet ends it.
pub fn library_extends_reply_set(id: SeqId, frame: &[u8]) -> bool {
    match library_parse_debug(id, frame) {
        Ok(Some(dbg)) => item_matches_own_decode(&dbg, frame) == Some(true),
        _ => false,
    }
}

// ---------------------------------------------------------------- drivers

/// What the harness sees of the stream, with the connection state at the
/// moment each item was handed to the caller.
#[derive(Clone, Debug)]
pub struct Item {
    /// `Ok(Debug of the packet)` or `Err(error text)`.
    pub res: Result<String, String>,
    pub written_len: usize,
    pub cursor: u64,
    pub log_seq: usize,
}

#[derive(Default)]
pub struct Recorded {
    pub items: Vec<Item>,
    /// The stream returned `None`.
    pub ended: bool,
    /// Items produced by polling after the end.
    pub after_end: usize,
    pub written_at_end: usize,
    pub cursor_at_end: u64,
    pub log_seq_at_end: usize,
}

pub type Rec = Arc<Mutex<Recorded>>;

async fn drive_stream<O: std::fmt::Debug>(
    mut stream: std::pin::Pin<Box<dyn futures::Stream<Item = anyhow::Result<O>> + Send + '_>>,
    rec: Rec,
    h: ConnHandle,
    log: crate::conn::SharedLog,
    max_items: usize,
) {
    loop {
        let next = stream.next().await;
        let mut r = rec.lock().unwrap();
        let seq = log.lock().unwrap().entries.len();
        match next {
            Some(item) => {
                let res = match item {
                    Ok(v) => Ok(format!("{:?}", v)),
                    Err(e) => Err(format!("{:#}", e)),
                };
                log.lock()
                    .unwrap()
                    .note(format!("yield {}", res.as_ref().map(|s| short(s)).unwrap_or_else(|e| format!("Err({})", short(e)))));
                r.items.push(Item {
                    res,
                    written_len: h.written_len(),
                    cursor: h.cursor(),
                    log_seq: seq,
                });
                if r.items.len() >= max_items {
                    return;
                }
            }
            None => {
                r.ended = true;
                r.written_at_end = h.written_len();
                r.cursor_at_end = h.cursor();
                r.log_seq_at_end = seq;
                log.lock().unwrap().note("stream end");
                break;
            }
        }
    }
    // Polling a finished stream again: it may return None for ever (then it must do no I/O and
    // yield nothing), or it may not be fused at all - the Stream contract allows a panic then.
    for _ in 0..3 {
        use futures::FutureExt;
        match std::panic::AssertUnwindSafe(stream.next()).catch_unwind().await {
            Ok(Some(_)) => rec.lock().unwrap().after_end += 1,
            Ok(None) => {}
            Err(_) => {
                let _ = crate::framework::take_panic();
                break;
            }
        }
    }
}

fn short(s: &str) -> String {
    if s.len() > 120 {
        format!("{}..", &s[..s.char_indices().take(120).last().map(|(i, _)| i).unwrap_or(0)])
    } else {
        s.to_string()
    }
}

fn select_language(b: u8) -> packets::SelectLanguage {
    // The field is private; the only way to build one is to decode it. Should the library refuse
    // this language code, the nearest code it accepts is used (the reference command follows suit
    // through `effective_language`).
    packets::SelectLanguage::zvt_deserialize(&[0x08, 0x30, 0x01, effective_language(b)])
        .expect("no language code at all decodes as SelectLanguage")
        .0
}

/// The language code actually sent for input byte `b`: `b` itself if the library can build the
/// packet for it, else the next code (cyclically) it accepts.
pub fn effective_language(b: u8) -> u8 {
    for d in 0..=255u8 {
        let c = b.wrapping_add(d);
        if packets::SelectLanguage::zvt_deserialize(&[0x08, 0x30, 0x01, c]).is_ok() {
            return c;
        }
    }
    b
}

/// Runs the real `Sequence::into_stream` of `id` with the input built from `p`.
pub async fn drive(
    id: SeqId,
    p: &InParams,
    pt: &mut PacketTransport<SimConn>,
    rec: Rec,
    h: ConnHandle,
    log: crate::conn::SharedLog,
    max_items: usize,
) {
    use SeqId::*;
    // Inputs are built without exhaustive struct literals (a command type that gains an optional
    // field must not stop the harness from compiling): the value the library decodes from the
    // reference encoding of the command, with every field the harness knows about then *assigned*
    // from the plan - so what goes out still does not depend on the decoder for those fields.
    fn from_ref<T>(id: SeqId, p: &InParams) -> T
    where
        T: ZvtSerializer,
        zvt::encoding::Default: zvt::encoding::Encoding<T>,
    {
        let frame = ref_command(id, p).encode();
        match T::zvt_deserialize(&frame) {
            Ok((v, _)) => v,
            Err(e) => {
                eprintln!("HARNESS ERROR: the library does not decode the reference encoding {} of its own command {:?}: {:?}", crate::conn::hex(&frame), id, e);
                std::process::exit(2)
            }
        }
    }
    let bmp60 = |b: &mut Option<packets::tlv::Bmp60>| {
        if let Some(b) = b.as_mut() {
            b.bmp_prefix = "AC".to_string();
            b.bmp_data = p.token.clone();
        }
    };
    macro_rules! go {
        ($seq:ty, $input:expr) => {{
            let input = $input;
            let s = <$seq as Sequence>::into_stream(&input, pt);
            drive_stream(s, rec, h, log, max_items).await;
        }};
    }
    match id {
        Registration => go!(sequences::Registration, {
            let mut v: packets::Registration = from_ref(id, p);
            v.password = p.password as usize;
            v.config_byte = p.byte;
            v.currency = Some(p.currency as usize);
            v.tlv = None;
            v
        }),
        ReadCard => go!(sequences::ReadCard, {
            let mut v: packets::ReadCard = from_ref(id, p);
            v.timeout_sec = p.byte;
            v.card_type = Some(0x10);
            v.dialog_control = Some(2);
            if let Some(t) = v.tlv.as_mut() {
                t.card_reading_control = Some(0xd0);
                t.card_type = Some(7);
            }
            v
        }),
        Initialization => go!(sequences::Initialization, {
            let mut v: packets::Initialization = from_ref(id, p);
            v.password = p.password as usize;
            v
        }),
        SetTerminalId => go!(sequences::SetTerminalId, {
            let mut v: packets::SetTerminalId = from_ref(id, p);
            v.password = p.password as usize;
            v.terminal_id = Some(p.terminal_id as usize);
            v
        }),
        ResetTerminal => go!(sequences::ResetTerminal, from_ref::<packets::ResetTerminal>(id, p)),
        Diagnosis => go!(sequences::Diagnosis, {
            let mut v: packets::Diagnosis = from_ref(id, p);
            if let Some(t) = v.tlv.as_mut() {
                t.diagnosis_type = Some(p.byte % 5 + 1);
            }
            v
        }),
        EndOfDay => go!(sequences::EndOfDay, {
            let mut v: packets::EndOfDay = from_ref(id, p);
            v.password = p.password as usize;
            v
        }),
        Authorization => go!(sequences::Authorization, {
            let dec: packets::Authorization = from_ref(id, p);
            let mut tlv = dec.tlv;
            if let Some(t) = tlv.as_mut() {
                bmp60(&mut t.bmp_data);
            }
            packets::Authorization {
                amount: Some(p.amount as usize),
                currency: Some(p.currency as usize),
                payment_type: Some(p.byte),
                tlv,
                expiry_date: p.opt.as_ref().and_then(|o| o.expiry).map(|v| v as usize),
                timeout: p.opt.as_ref().and_then(|o| o.timeout),
                maximum_no_of_status_info: p.opt.as_ref().and_then(|o| o.max_status),
                pump_no: p.opt.as_ref().and_then(|o| o.pump),
                additional_text: p.opt.as_ref().and_then(|o| o.text.clone()),
                zvt_card_type: p.opt.as_ref().and_then(|o| o.card_type),
                ..packets::Authorization::default()
            }
        }),
        Reservation => go!(sequences::Reservation, {
            let dec: packets::Reservation = from_ref(id, p);
            let mut tlv = dec.tlv;
            if let Some(t) = tlv.as_mut() {
                bmp60(&mut t.bmp_data);
            }
            packets::Reservation {
                amount: Some(p.amount as usize),
                currency: Some(p.currency as usize),
                payment_type: Some(p.byte),
                trace_number: Some((p.terminal_id % 1_000_000) as usize),
                tlv,
                expiry_date: p.opt.as_ref().and_then(|o| o.expiry).map(|v| v as usize),
                timeout: p.opt.as_ref().and_then(|o| o.timeout),
                maximum_no_of_status_info: p.opt.as_ref().and_then(|o| o.max_status),
                pump_no: p.opt.as_ref().and_then(|o| o.pump),
                additional_text: p.opt.as_ref().and_then(|o| o.text.clone()),
                zvt_card_type: p.opt.as_ref().and_then(|o| o.card_type),
                ..packets::Reservation::default()
            }
        }),
        PartialReversal => go!(sequences::PartialReversal, {
            let dec: packets::PartialReversal = from_ref(id, p);
            let mut tlv = dec.tlv;
            if let Some(t) = tlv.as_mut() {
                bmp60(&mut t.bmp_data);
            }
            packets::PartialReversal {
                receipt_no: Some(p.receipt as usize),
                amount: Some(p.amount as usize),
                payment_type: Some(p.byte),
                currency: Some(p.currency as usize),
                tlv,
                ..packets::PartialReversal::default()
            }
        }),
        PreAuthReversal => go!(sequences::PreAuthReversal, {
            let mut v: packets::PreAuthReversal = from_ref(id, p);
            v.payment_type = Some(p.byte);
            v.currency = Some(p.currency as usize);
            v.receipt_no = Some(p.receipt as usize);
            v
        }),
        PrintSystemConfiguration => go!(sequences::PrintSystemConfiguration, from_ref::<packets::PrintSystemConfiguration>(id, p)),
        SelectLanguage => go!(sequences::SelectLanguage, select_language(p.byte)),
        StatusEnquiry => go!(sequences::StatusEnquiry, {
            let mut v: packets::StatusEnquiry = from_ref(id, p);
            v.password = Some(p.password as usize);
            v.service_byte = Some(p.byte);
            v.tlv = None;
            v
        }),
        GetSystemInfo => go!(feig::sequences::GetSystemInfo, {
            let mut v: feig::packets::CVendFunctions = from_ref(id, p);
            v.password = None;
            v.instr = 1;
            v
        }),
        FactoryReset => go!(feig::sequences::FactoryReset, {
            let mut v: feig::packets::CVendFunctions = from_ref(id, p);
            v.password = Some(p.password as usize);
            v.instr = 0x0255;
            v
        }),
        ChangeHostConfiguration => go!(feig::sequences::ChangeHostConfiguration, {
            let mut v: feig::packets::ChangeConfiguration = from_ref(id, p);
            v.tlv.system_information.password = p.password as usize;
            if let Some(h) = v.tlv.system_information.host_configuration_data.as_mut() {
                h.ip = p.ip;
                h.port = p.port;
                h.config_byte = p.byte;
            }
            v
        }),
    }
}

/// `T::zvt_parse(frame)` of the sequence's reply enum: does the library
/// itself consider this frame decodable? (C06 decides "undecodable"
/// adaptively and never disagrees with the parser about what failure is.)
/// `Debug` of what the sequence's reply parser returns for `bytes` handed to it directly
/// (None = error); Err = it panicked.
pub fn library_parse_debug(id: SeqId, bytes: &[u8]) -> Result<Option<String>, (String, String)> {
    use zvt::ZvtParser;
    use SeqId::*;
    fn d<T: std::fmt::Debug, E>(r: Result<T, E>) -> Option<String> {
        r.ok().map(|v| format!("{:?}", v))
    }
    let f = || -> Option<String> {
        match id {
            Registration => d(sequences::RegistrationResponse::zvt_parse(bytes)),
            ReadCard => d(sequences::ReadCardResponse::zvt_parse(bytes)),
            Initialization => d(sequences::InitializationResponse::zvt_parse(bytes)),
            SetTerminalId => d(sequences::SetTerminalIdResponse::zvt_parse(bytes)),
            ResetTerminal => d(sequences::ResetTerminalResponse::zvt_parse(bytes)),
            Diagnosis => d(sequences::DiagnosisResponse::zvt_parse(bytes)),
            EndOfDay => d(sequences::EndOfDayResponse::zvt_parse(bytes)),
            Authorization | Reservation => d(sequences::AuthorizationResponse::zvt_parse(bytes)),
            PartialReversal | PreAuthReversal => d(sequences::PartialReversalResponse::zvt_parse(bytes)),
            PrintSystemConfiguration => d(sequences::PrintSystemConfigurationResponse::zvt_parse(bytes)),
            SelectLanguage => d(sequences::SelectLanguageResponse::zvt_parse(bytes)),
            StatusEnquiry => d(sequences::StatusEnquiryResponse::zvt_parse(bytes)),
            GetSystemInfo => d(feig::sequences::GetSystemInfoResponse::zvt_parse(bytes)),
            FactoryReset => d(feig::sequences::FactoryResetResponse::zvt_parse(bytes)),
            ChangeHostConfiguration => d(feig::sequences::ChangeHostConfigurationResponse::zvt_parse(bytes)),
        }
    };
    crate::framework::guarded(f)
}

pub fn library_parses(id: SeqId, frame: &[u8]) -> Result<bool, (String, String)> {
    use zvt::ZvtParser;
    use SeqId::*;
    let f = || -> bool {
        match id {
            Registration => sequences::RegistrationResponse::zvt_parse(frame).is_ok(),
            ReadCard => sequences::ReadCardResponse::zvt_parse(frame).is_ok(),
            Initialization => sequences::InitializationResponse::zvt_parse(frame).is_ok(),
            SetTerminalId => sequences::SetTerminalIdResponse::zvt_parse(frame).is_ok(),
            ResetTerminal => sequences::ResetTerminalResponse::zvt_parse(frame).is_ok(),
            Diagnosis => sequences::DiagnosisResponse::zvt_parse(frame).is_ok(),
            EndOfDay => sequences::EndOfDayResponse::zvt_parse(frame).is_ok(),
            Authorization | Reservation => sequences::AuthorizationResponse::zvt_parse(frame).is_ok(),
            PartialReversal | PreAuthReversal => {
                sequences::PartialReversalResponse::zvt_parse(frame).is_ok()
            }
            PrintSystemConfiguration => {
                sequences::PrintSystemConfigurationResponse::zvt_parse(frame).is_ok()
            }
            SelectLanguage => sequences::SelectLanguageResponse::zvt_parse(frame).is_ok(),
            StatusEnquiry => sequences::StatusEnquiryResponse::zvt_parse(frame).is_ok(),
            GetSystemInfo => feig::sequences::GetSystemInfoResponse::zvt_parse(frame).is_ok(),
            FactoryReset => feig::sequences::FactoryResetResponse::zvt_parse(frame).is_ok(),
            ChangeHostConfiguration => {
                feig::sequences::ChangeHostConfigurationResponse::zvt_parse(frame).is_ok()
            }
        }
    };
    crate::framework::guarded(f)
}
