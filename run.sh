#!/bin/bash
# /verif/run.sh <ID> <quick|thorough>     run the check of one property
# /verif/run.sh replay <replay-file>      re-execute a recorded violation
# Exit 0: property held on everything explored; 1: VIOLATION line(s); 2: harness error.
set -u
VERIF_DIR="$(cd "$(dirname "$0")" && pwd)"
export VERIF_DIR
export CARGO_NET_OFFLINE=true
cd "$VERIF_DIR/sim" || exit 2
# Rebuild from /repo's current working tree (path dependencies with the zvt_verif feature on).
if ! cargo build --release --offline >"$VERIF_DIR/sim/build.log.tmp" 2>&1; then
    echo "HARNESS ERROR: build failed (see below)"
    grep -E "^error" -A12 "$VERIF_DIR/sim/build.log.tmp" | head -60
    exit 2
fi
BIN="$VERIF_DIR/sim/target/release/zvt-sim"
case "${1:-}" in
    replay)
        exec "$BIN" replay "${2:?replay file}"
        ;;
    selftest)
        shift
        exec "$BIN" selftest "$@"
        ;;
    "")
        echo "usage: run.sh <ID> <quick|thorough> | replay <file>"; exit 2
        ;;
    *)
        exec "$BIN" check "$1" --tier "${2:-${VERIF_TIER:-quick}}"
        ;;
esac
