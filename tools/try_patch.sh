#!/bin/bash
# tools/try_patch.sh <patch.diff> <tier> <ID> [<ID>...]
# Applies a patch to /repo, runs the given checks, and always reverts.
# Prints one line per check: "<ID> exit=<code>" (+ the first VIOLATION rule).
set -u
PATCH="$1"; TIER="$2"; shift 2
cd /repo || exit 2
if [ -n "$(git status --porcelain)" ]; then echo "refusing: /repo has uncommitted changes"; exit 2; fi
trap 'git -C /repo checkout -- . ; git -C /repo clean -fdq -- zvt zvt_builder zvt_derive zvt_feig_terminal zvt_cli 2>/dev/null' EXIT
git apply "$PATCH" || { echo "patch does not apply"; exit 2; }
for ID in "$@"; do
    OUT=$(VERIF_OUT_DIR=/dev/shm/verif_mut_out /verif/run.sh "$ID" "$TIER" 2>&1); CODE=$?
    RULE=$(echo "$OUT" | grep -m1 "rule=" | cut -c1-200)
    echo "$ID exit=$CODE $RULE"
done
