#!/bin/bash
# tools/run_preserving_iso.sh [tier] [slots]: every property-preserving edit in /verif/preserving against
# ALL checks (the committed harness: commit first), in parallel on isolated copies of /repo (tools/iso.sh). Expect exit 0 everywhere.
TIER="${1:-quick}"; SLOTS="${2:-3}"
ls /verif/preserving/*.diff > /dev/shm/pres_list.txt
run_slot() {
  s=$1
  awk -v s=$s -v n=$SLOTS 'NR % n == s % n' /dev/shm/pres_list.txt | while read p; do
    R=$(VERIF_THREADS=${VERIF_THREADS:-5} ISO_SIM=head /verif/tools/iso.sh pres$s "$p" $TIER C02 C04 C05 C06 C07 C08 C09 C10 C11 C15 C18 C19 C20 2>&1)
    BAD=$(echo "$R" | grep -v "exit=0")
    if [ -n "$BAD" ]; then echo "$(basename $p): FALSE ALARM / ERROR"; echo "$BAD" | cut -c1-300; else echo "$(basename $p): all 13 checks exit 0"; fi
  done
}
for s in $(seq 1 $SLOTS); do run_slot $s > /dev/shm/pres_out_$s.txt 2>&1 & done
wait
cat /dev/shm/pres_out_*.txt | sort
echo "false alarms / errors: $(cat /dev/shm/pres_out_*.txt | grep -c 'FALSE ALARM')"
