#!/bin/bash
# tools/try_replay.sh <patch.diff> <ID>: applies the patch, runs the quick check (expects a violation),
# replays the first replay file it reported in a fresh process (expects exit 1 and the same event-log
# hash), reverts the patch, replays again on the clean tree (expects exit 0).
set -u
PATCH="$1"; ID="$2"
cd /repo || exit 2
if [ -n "$(git status --porcelain)" ]; then echo "refusing: /repo has uncommitted changes"; exit 2; fi
trap 'git -C /repo checkout -- .' EXIT
git apply "$PATCH" || exit 2
export VERIF_OUT_DIR=/dev/shm/verif_mut_out
OUT=$(/verif/run.sh "$ID" quick 2>&1); echo "check exit=$?"
F=$(echo "$OUT" | grep -m1 "^VIOLATION" | sed 's/.*replay=//')
[ -z "$F" ] && { echo "no violation reported"; exit 1; }
R=$(/verif/run.sh replay "$F" 2>&1); echo "replay (patched) exit=$? :: $(echo "$R" | grep trace_hash)"
git -C /repo checkout -- .
R=$(/verif/run.sh replay "$F" 2>&1); echo "replay (clean tree) exit=$? :: $(echo "$R" | grep -E 'REPLAY|trace_hash' | tr '\n' ' ')"
