#!/bin/bash
# tools/iso.sh <slot> <patch.diff|-> <tier> <ID> [<ID>...]
# Runs checks against a patched *copy* of /repo (slot-private copy of /repo and /verif/sim under
# /dev/shm/iso_<slot>, incremental builds), so that several seeded / preserving edits can be tried
# in parallel and /repo itself is never touched. Prints "<ID> exit=<code> <first rule line>".
set -u
SLOT="$1"; PATCH="$2"; TIER="$3"; shift 3
W=/dev/shm/iso_$SLOT
# reviewers and background suites always get the committed harness
case "$SLOT" in review*|seed*|pres*) ISO_SIM=head;; esac
mkdir -p $W/out
# no -t: a file restored to its original content must get a NEW mtime, or cargo (which compares
# mtimes) would keep the object code of the previous patch
rsync -rlpD --checksum --delete --exclude target --exclude .git /repo/ $W/repo/
if [ "${ISO_SIM:-tree}" = "head" ]; then
  # the committed harness (background runs must not pick up half-finished edits)
  rm -rf $W/sim.new && mkdir -p $W/sim.new && git -C /verif archive HEAD sim | tar -x -C $W/sim.new
  rsync -rlpD --checksum --delete --exclude target $W/sim.new/sim/ $W/sim/
else
  rsync -rlpD --checksum --delete --exclude target /verif/sim/ $W/sim/
fi
sed -i "s|/repo/|$W/repo/|g" $W/sim/Cargo.toml
if [ "$PATCH" != "-" ]; then
  ( cd $W/repo && patch -p1 -s --no-backup-if-mismatch < "$PATCH" ) || { echo "patch does not apply"; exit 2; }
fi
cd $W/sim || exit 2
if ! CARGO_NET_OFFLINE=true cargo build --release --offline > $W/build.log 2>&1; then
  echo "HARNESS ERROR: build failed"; grep -E "^error" -A8 $W/build.log | head -30; exit 2
fi
for ID in "$@"; do
  OUT=$(VERIF_DIR=/verif VERIF_OUT_DIR=$W/out VERIF_REPO=$W/repo $W/sim/target/release/zvt-sim check "$ID" --tier "$TIER" 2>&1); CODE=$?
  RULE=$(echo "$OUT" | grep -m1 "rule=" | cut -c1-220)
  echo "$ID exit=$CODE $RULE"
done
