#!/usr/bin/env python3
"""Generates /verif/MANIFEST.json from one table (kept in this file)."""
import json, subprocess, sys

HOOK_COMMITS = subprocess.run(["git", "-C", "/repo", "log", "--reverse", "--format=%H", "--grep=zvt_verif"],
                              capture_output=True, text=True).stdout.split()

WIRE = "wire"
CLIENT = "client"

CHECKS = {
 "C02": dict(level="fault_enumeration", engine=WIRE, ref="6 (C02)",
   technique="deterministic simulation: wire-corruption fault enumeration through the real transport into every decoder",
   text="Every decoder of every shipped packet type (17 reply parsers + 3 PT-role enums covering all 31 command types) sits on the receiving end of a simulated connection; a corpus of richly populated valid frames is corrupted in transit - one byte at every offset (all 256 values in the thorough tier), truncation at every length, BER/tag prefixes at the cut, BCD digit overflow runs, every body of length <= 2, impossible calendar values, APDU length edits, PRNG stacks - and the run must end in Ok or Err: no panic (overflow checks on), no loop (wall-clock watchdog), bounded allocation (counting allocator). Single faults are enumerated exhaustively over the corpus; the 2^(8n) input space is sampled, not covered.",
   note="Trusted: the corpus reaches the relevant decode paths (valid-corpus family decodes Ok for the matching parser); release build with overflow-checks=true makes wrap-around observable as a panic."),
 "C04": dict(level="fault_enumeration", engine=WIRE, ref="6 (C04)",
   technique="deterministic simulation: chunking schedules and end-of-stream fault at every byte position over the real transport",
   text="Real write_packet output and reference-framed packets are read back by the real read_packet::<RawFrame> over a SimConn that decides every read size and Pending: all 2^11 partitions of a 12-byte three-packet stream, all partitions of an extended header, EOF/ECONNRESET at every byte position of a five-packet stream, writer/reader header agreement for every body length 0..65535 (thorough), a stall of the peer (1 ms .. 1 h of virtual time, on both sides of 5 s and 60 s) at every byte position of the headers and around the packet boundaries, PRNG streams, schedules and stalls. Oracle: frames byte-identical and in order, read cursor exactly at each boundary (no read-ahead), truncated stream yields an error and never a packet.",
   note="Trusted: reference APDU framing in refcodec.rs; RawFrame sees exactly the slice the transport passes to a parser."),
 "C05": dict(level="exploration", engine=WIRE, ref="6 (C05)",
   technique="deterministic simulation: seeded search over reply scripts x terminal release modes x I/O schedules against a reference model of the sequence layer",
   text="Each of the 17 real Sequence::into_stream - and the real firmware upload WriteFile::into_stream as an 18th, with PRNG payload directories and request scripts - runs against a scripted terminal: every script non-final^d final over the command's reply alphabet to depth 3 (quick) / 4 (thorough), PRNG scripts to depth 40, in lockstep (next reply only after exactly one answer), eager (everything queued: read-ahead visible on the cursor) and paced mode, under whole / one-byte / PRNG chunking, short writes and Pending. The reference model predicts, event by event, command frame, one 80 00 00 per packet written at the packet's end offset and before the item is handed over, items in order with the packet type's own decode, end right after the first final packet, cursor at its end, queued tail untouched, no I/O after the end. Packets longer than 254 bytes (extended header) and of exactly 4096, 4097, 8192 ... 65535 body bytes occur in every alphabet; a paced terminal stalls at every byte position of the first packets (4.999 s, 5.001 s, 61 s of virtual time) and at PRNG positions.",
   note="Trusted: the reply-alphabet table (DESIGN 5.2), reference codec; bounded depth."),
 "C06": dict(level="fault_enumeration", engine=WIRE, ref="6 (C06)",
   technique="deterministic simulation: single-fault enumeration at every position of every exchange, multi-fault seeded search",
   text="For every sequence and script prefix, one fault per run at every position: NACK 84xx (all 256) and foreign frames at the acknowledgement point, foreign control field / undecodable body at every reply position, EOF at every byte offset and ECONNRESET at every third, EPIPE on the command and each answer; the same under PRNG schedules and PRNG multi-fault stacks. Oracle: valid prefix, exactly one Err, then None; written bytes exactly command + one answer per valid packet (never an answer for the faulty one), no read beyond the faulty frame, no write after a failed write. 'Undecodable' is asked of the library's own parser.",
   note="Trusted: reply-alphabet table; positive acknowledgement is exactly 80 00 00."),
 "C15": dict(level="fault_enumeration", engine=WIRE, ref="6 (C15)",
   technique="deterministic simulation: exhaustive foreign-control-field fault (all 65,536) through every real reply parser",
   text="C06's foreign-control-field fault made exhaustive: all 65,536 (class, instr) pairs x 17 reply parsers x 4 body kinds (+ all 65,536 at the acknowledgement point) in the thorough tier, alphabet neighbourhoods and 2,000 PRNG pairs per parser in the quick tier, each sent as one well-framed reply through the real transport and sequence. In the reply set and decodable by its packet type -> Ok with exactly that content; everything else -> one Err, no acknowledgement.",
   note="Trusted: reply-alphabet table; the clause about inputs shorter than two bytes cannot arise on the wire and is not covered."),
 "C11": dict(level="exploration", engine=WIRE, ref="6 (C11)",
   technique="deterministic simulation: seeded search over payload directories, block sizes, request scripts and I/O schedules against a reference model reading the same files",
   text="The real WriteFile::into_stream runs over a payload directory the simulator writes per run (PRNG subset of the 21 recognised paths incl. none, unrelated files/directories, sizes around block multiples up to 200 KiB, PRNG content) against a scripted terminal whose request script covers any order, repeats, overlaps, offsets at/after end of file, unknown ids and requests lacking id / offset / container / TLV, ending in completion or abort, in lockstep/eager/paced mode under PRNG chunking and short writes. Oracle: announced list equals the recognised files present with true sizes (as a set); each request is answered by exactly one WriteData echoing id and offset with file[offset..min(offset+block,size)] byte for byte, written at the request's end offset and before the item is handed over; an invalid request yields one error and no data. File-system faults through the zvt_verif hook of crate zvt: the nth open / read_at of a payload file fails (EIO, ENOENT, EACCES, EINTR) or comes back short - enumerated at every file operation of a five-request upload and sampled; a failing operation may end the upload with exactly one error or be retried, a short read must not shorten the answer, wrong bytes are never accepted.",
   note="Trusted: harness copy of the path->id table; real files on tmpfs, file-system faults injected through the hook; reference TLV codec."),
 "C07": dict(level="exploration", engine=CLIENT, ref="6 (C07)",
   technique="deterministic simulation: bounded-exhaustive and seeded call histories against a stateful simulated terminal, refinement check against a token->receipt reference model",
   text="The real Feig (real Feig::new, reconnecting stream, handshake, sequences, codec) runs on a paused tokio clock against the stateful simulated terminal (ledger, receipt counter). Every history over begin/commit/cancel x tokens {A,B,''} to depth 3 (quick) / 4 (thorough) x maximum 0..3 x terminal outcomes {success, abort, no receipt number}, depth-5 call sequences and PRNG walks to depth 40 over 5 tokens under PRNG I/O schedules and emission delays. After every call the reference model decides: refused calls fail with the documented error and cause no traffic at all; an accepted begin sends one Reservation and opens the token iff the terminal issued a receipt; commit/cancel send their reversal with exactly the receipt the terminal's ledger recorded for that token's reference and close the token; ledger cross-invariant for all open tokens. A further family runs PRNG histories under transport faults (EOF, reset, NACK, undecodable body, silence, stall inside a packet, EPIPE, refused connect) against the results-only part of the model: the token map is tracked from the returned results, so refusals without traffic, 'same receipt on every attempt' and 'the receipt is the one the terminal issued with the completion it actually emitted (not one offered in an attempt that never completed)' stay decidable; one fault of 7 kinds at every emission point of three begin/commit/cancel workloads is enumerated.",
   note="Trusted: the simulated terminal (pt.rs) and the reference codec; fault-free transport (faults: C09/C10)."),
 "C08": dict(level="exploration", engine=CLIENT, ref="6 (C08)",
   technique="deterministic simulation: seeded search over amounts, currencies, tokens, receipt numbers and terminal status fields; requests decoded by an independent reference codec, ledger conservation",
   text="Same engine, value-focused workload: boundary grid pre-authorisation {0,1,2,2500,99999,100000,10^12-2,10^12-1} x final amount {0,1,pre-1,pre,pre+1,2pre,u64::MAX,u64::MAX-1,2^63} x 3 currencies (exhaustive), PRNG amounts over every digit count, CP437 tokens 0..64 bytes and at lengths where an enclosing TLV length crosses 127/128 and 255/256 (up to 5000), cards read before transactions begin (card-side pre-authorisation limit 1F0B and the other card TLVs present), receipt counter incl. wrap at 9999, status fields over their ranges, passwords 0..999999, 1-3 concurrent transactions. Oracle: Reservation carries the configured amount/currency, payment type 40 and AC/token; PartialReversal carries max(pre-final,0) (computed in u128), the reservation's receipt, currency and token; PreAuthReversal its receipt and currency; the terminal's ledger ends with exactly that amount released; the summary equals numerically the last status information the terminal sent (a preliminary one with other values may precede it). The client's configuration goes through the crate's own JSON deserializer (currency by ISO 4217 name, independent table in the harness); a further family repeats the value workload under transport faults (every request incl. retries must carry the right fields; the summary must be that of the exchange the terminal completed).",
   note="Trusted: reference codec (BMP table, TLV); yore's CP437 table for token bytes; simulated terminal's ledger."),
 "C09": dict(level="fault_enumeration", engine=CLIENT, ref="6 (C09)",
   technique="deterministic simulation with fault injection: single-fault enumeration over every emission point of every connection, seeded multi-fault search, oracle over the per-connection event log",
   text="Faulty-transport configuration: one fault at every emission point of connection 0 (handshake, Feig::new's configure, every exchange of 5 workloads; points found by a fault-free dry run) x {EOF, EOF mid-frame, ECONNRESET, NACK, foreign control field, undecodable body, junk, silence, stall inside a packet, EPIPE on the client's next write, wrong serial, identity request answered with a well-formed abort}, the same plus a second fault at each handshake point of the retry connection, 0..21 refused connects, serial in other letter case (accepted), serial differing in any other way incl. shorter/longer/prefix (never used for commands), non-final packets in the pending query, PRNG multi-fault sequences over connections 0..5 with PRNG schedules. Oracle on the event log: R1 every connection starts with Registration (configured password/currency) and the identity request, commands only after a matching serial; R2 after a fault no client frame on that connection and it is dropped before the next opens / the call returns; after a failed write neither another write attempt nor a read; R2b the terminal never sees a frame stacked on an unfinished exchange; R3 a call without fault keeps the connection for the next; R4 one connection at a time; R5 a state-independent call after the last fault succeeds.",
   note="Trusted: lockstep terminal model; abort = completed exchange; no time-out value in the oracle."),
 "C10": dict(level="fault_enumeration", engine=CLIENT, ref="6 (C10)",
   technique="deterministic simulation with fault injection on a discrete-event clock: stall enumeration at every emission point, connect hangs, exhaustive read_card_timeout",
   text="A stall (silence) at every emission point of connection 0 x later connections {healthy, stall at the same point, terminal dead for ever (stalls in the handshake of every later connection, without end), every later connect never completes}, unsolicited bytes behind every frame (complete packet, one byte, partial header / body) with the connection left open, connect-hang patterns, read_card_timeout 0..255 x card arrival {at once, 1 ms before the window closes, mid-window} and x a terminal that never answers, configuration extremes and values beyond the width of their wire fields (password, amount, currency, terminal id - also terminal ids spelled differently from the eight digits the terminal reports), PRNG stalls with schedule noise. W1: every public call returns Ok/Err before a one-virtual-day watchdog and never panics (overflow checks on). W2: a card delivered inside the configured window is answered on the first connection for every time-out value. The bound itself (max virtual duration, attempts) is reported, not judged.",
   note="Trusted: tokio's paused clock as discrete-event time; delays never tie with timers."),
 "C18": dict(level="exploration", engine=CLIENT, ref="6 (C18)",
   technique="deterministic simulation: read_card against simulated status replies, each card presented repeatedly under different schedules, compared with the stated classification function",
   text="read_card through the real client against status replies: grid of 16 UID forms (absent, empty, 1..20 bytes, zero-padded, exactly 7/8/10 bytes) x 9 application-list forms, each presented three times in one run under different schedules, delays and BMP orders; all 256 abort codes; cards that arrive after 63..255 intermediate statuses and in status informations of more than 254 bytes (21/22/60 applications); PRNG cards presented repeatedly. Oracle f(reply): first application entry with id -> Bank; entries listed but first without id -> Bank or error, never Membership; no entries and UID -> Membership(upper-case hex, last 14 digits, one leading 000000 removed), identical for every presentation; 6C -> NoCardPresented; other aborts / nothing usable -> error. The grid is repeated with a connection failure and reconnect between / inside the presentations (a card is never classified wrongly, whatever the transport does).",
   note="Trusted: the classification function as stated in the property; applications listed only inside tag 62 are outside the anchored mechanism and not judged."),
 "C19": dict(level="exploration", engine=CLIENT, ref="6 (C19)",
   technique="deterministic simulation: call histories x terminal ledgers x end-of-day outcomes, temporal oracle over the ordered request log",
   text="commit/cancel x (another token open or not) x pending-query answer {FFFF, no BMP 87, dangling receipt} x end-of-day outcome {completion, all 256 abort codes} with and without intermediate/print packets (exhaustive grid), every history to depth 3, PRNG walks with clean-up variants. Oracle on the request log of each call: own reversal completed and no token left open -> next frames are exactly 06 23/FFFF, then iff a receipt was reported its 06 25 (configured currency), then 06 50 (configured password); Ok for completion and abort A0, error for any other code; while other tokens are open neither 06 50 nor the query is sent; end-of-day never reaches the terminal while a dangling pre-authorisation it reported (or tried to report) is still open - also when its reversal was refused or the query was hit by a transport fault (PRNG histories under faults). Bounded liveness: when the terminal merely closes the connection between two exchanges of the call (enumerated at every point of five workloads), the clean-up still reaches end-of-day.",
   note="Trusted: simulated terminal's pending-query behaviour (2.10.1); nothing is asserted when the terminal refused the call's own reversal."),
 "C20": dict(level="exploration", engine=CLIENT, ref="6 (C20)",
   technique="deterministic simulation: every abort-capable exchange x all 256 result codes x abort position, against the simulated terminal",
   text="9 abort-capable exchanges (read card, reservation, partial reversal, pre-auth reversal, end-of-day after commit / after cancel, configure's system info / set terminal id / initialisation) x all 256 codes x abort after 0..3 non-final packets (exhaustive), configure's end-of-day x 256, reservation aborts in the richer forms of ZVT 2.2.9 (currency code, TLV with extended error code and text) x 256 codes, aborts after 63..255 intermediate and print packets, PRNG walks with raised abort rate. Oracle: the call fails (never Ok) and the error identifies the code (structured Aborted(c), the number as decimal/hex token, or for card reading the chapter-10 message of c and not of another code); exactly three exceptions: read card + 6C -> NoCardPresented, reservation + FC -> NeedsPinEntry, end-of-day + A0 tolerated. Under transport faults (every emission point of cancel/commit/begin x 6 fault kinds, PRNG histories): an abort that the terminal delivered for the last attempt of the call's own command is never reported as success (e.g. 'already reversed' on a repeated reversal).",
   note="Trusted: chapter-10 message table transcribed in model.rs; handshake-level aborts are retried by design and not part of the seven anchored places."),
}

# Elements added after the table above was written (rounds 4-5 of seeded changes); appended to the level text.
ADDED = {
 "C02": " Also: the byte at every offset rewritten as a BER length prefix in every long / non-minimal form; harness built with debug assertions and overflow checks on.",
 "C04": " Also: transient read errors (EINTR / EAGAIN / ETIMEDOUT) at every byte offset, frames the parser refuses, an acknowledgement that carries data, stalls of 1 ms..1 h at every offset on the simulated clock.",
 "C05": " Also: identical packets in a row, optional command fields, terminal pauses and malformed replies as script elements.",
 "C15": " Also: the parser seam called directly with inconsistent buffers, the connection ending inside a reply at every byte, pauses after each byte of a reply.",
 "C11": " Also: file-system faults through the file hook (open / read errors, short reads), symbolic links, terminal pauses at every byte position.",
 "C07": " Also: near-identical and common-prefix tokens, a slow terminal and packets in two pieces inside begin_transaction, refused calls while the terminal is unreachable.",
 "C08": " Also: second rounds with the same tokens, refused commits retried, every repetition of the reversal judged, a commit that returns Ok must have reached the terminal with the receipt issued for that token.",
 "C09": " Also: read errors of every kind as failures, a slow but healthy terminal (no needless reconnect), identity request aborted, connection closed while idle.",
 "C10": " Also: status packets with every time-out byte, every card form without any stall, stale bytes behind every frame, configuration values beyond the wire range.",
 "C18": " Also: intermediate statuses with codes outside the table, read_card_timeout extremes, a card delivered on the retried exchange.",
 "C19": " Also: seven forms of the pending answer (explicit receipt 0000 / 9999, TLV lists that repeat or do not repeat the BMP-87 receipt), clean close between the exchanges of the clean-up, commit amounts 0..u64::MAX.",
 "C20": " Also: aborts arriving late or with the configured time at 0 / 254 / 255, abort packets in two pieces with a pause, an aborted reversal of a dangling pre-authorisation, long scripts before the abort.",
}

NOT_APPLICABLE = {
 "C01": "pure function value -> bytes -> value of the codec: no schedule, clock, peer, fault or history for a simulator to own; enumerating its input domain would be property-based testing under another name (DESIGN 7)",
 "C03": "pure function, both directions, against a layout table: no nondeterminism or fault in it; the reference codec only covers the ~30 packet layouts that travel on the simulated wire, as an oracle component (DESIGN 7)",
 "C12": "quantifies over programs expanded at compile time by the derive macro; nothing executes under a scheduler (DESIGN 7)",
 "C13": "pure function of the byte string (tag order / duplicates / missing tags); no simulator-owned seam is involved (DESIGN 7)",
 "C14": "pure function (suffix independence of zvt_deserialize); its stream-level analogue - nothing beyond the announced length is consumed from a connection - is decided in C04/C05 (DESIGN 7)",
 "C16": "pure bijections of length-prefix styles; the one style that meets I/O (APDU header, writer vs reader) is decided for all 65,536 lengths inside C04 (DESIGN 7)",
 "C17": "pure scalar/text/tag encodings; no schedule, time, fault or interleaving to simulate (DESIGN 7)",
}

PENDING = {}

def main():
    checks = []
    for pid in sorted(CHECKS):
        c = CHECKS[pid]
        checks.append({
            "property_id": pid,
            "quick_cmd": f"./run.sh {pid} quick",
            "thorough_cmd": f"./run.sh {pid} thorough",
            "evidence_file": f"/verif/evidence/{pid}.json",
            "replay_cmd_template": "./run.sh replay {path}",
            "engine": c["engine"],
            "level_claimed": {"category": c["level"], "text": c["text"] + ADDED.get(pid, ""), "design_ref": "DESIGN.md section " + c["ref"]},
            "level_note": c["note"],
            "technique": c["technique"],
        })
    na = [{"property_id": k, "reason": v} for k, v in sorted({**NOT_APPLICABLE, **PENDING}.items()) if k not in CHECKS]
    m = {
        "version": 1,
        "setup_cmd": "cd /verif/sim && CARGO_NET_OFFLINE=true cargo build --release --offline",
        "hooks": {
            "guard": "cargo feature zvt_verif (crates zvt_feig_terminal and zvt)",
            "enable": "/verif/sim depends on /repo/zvt_feig_terminal and /repo/zvt by path with features=[\"zvt_verif\"]; every check runs `cargo build --release --offline` in /verif/sim first, which rebuilds /repo's working tree",
            "baseline_off_cmd": "cd /repo && cargo test --workspace --no-fail-fast --offline",
            "source_commits": HOOK_COMMITS,
            "add_only": True,
        },
        "engines": [
            {"name": WIRE, "path": "/verif/sim", "serves_properties": [p for p in sorted(CHECKS) if CHECKS[p]["engine"] == WIRE],
             "kind_free_text": "deterministic simulation of one connection: real zvt transport/sequences/decoders over SimConn (plan-decided read sizes, Pending, short writes, EOF/reset/EPIPE) against a scripted terminal; own single-future executor with stuck detection, run inside a per-thread tokio runtime with paused clock (simulated peer stalls; code under test may use tokio time/fs); seeded PRNG (xoshiro256**) decides everything; failures shrunk and written as replay files"},
            {"name": CLIENT, "path": "/verif/sim", "serves_properties": [p for p in sorted(CHECKS) if CHECKS[p]["engine"] == CLIENT],
             "kind_free_text": "deterministic simulation of the terminal client: real zvt_feig_terminal::Feig and reconnecting stream on a tokio current-thread runtime with paused (discrete-event) clock, SimNet connector behind the zvt_verif hook, stateful simulated payment terminal with ledger and fault plan"},
        ],
        "checks": checks,
        "not_applicable": na,
        "notes": "Technique family: deterministic simulation with fault injection. VERIF_SEED selects the base seed (default 1); VERIF_THREADS the worker count; every violation is shrunk and written to /verif/replays/<id>-<rule>-<seed>.json and replays exactly with ./run.sh replay <file>. known_findings.json lists genuine defects (fixed ones suppress nothing).",
    }
    json.dump(m, open("/verif/MANIFEST.json", "w"), indent=1)
    print("wrote MANIFEST.json with", len(checks), "checks,", len(na), "not applicable")

if __name__ == "__main__":
    main()
