#!/usr/bin/env python3
"""Generates /verif/MANIFEST.json from one table (kept in this file)."""
import json, subprocess, sys

HOOK_COMMIT = subprocess.run(["git", "-C", "/repo", "log", "--format=%H", "--grep=Add zvt_verif feature", "-1"],
                             capture_output=True, text=True).stdout.strip()

WIRE = "wire"
CLIENT = "client"

CHECKS = {
 "C02": dict(level="fault_enumeration", engine=WIRE, ref="6 (C02)",
   technique="deterministic simulation: wire-corruption fault enumeration through the real transport into every decoder",
   text="Every decoder of every shipped packet type (17 reply parsers + 3 PT-role enums covering all 31 command types) sits on the receiving end of a simulated connection; a corpus of richly populated valid frames is corrupted in transit - one byte at every offset (all 256 values in the thorough tier), truncation at every length, BER/tag prefixes at the cut, BCD digit overflow runs, every body of length <= 2, impossible calendar values, APDU length edits, PRNG stacks - and the run must end in Ok or Err: no panic (overflow checks on), no loop (wall-clock watchdog), bounded allocation (counting allocator). Single faults are enumerated exhaustively over the corpus; the 2^(8n) input space is sampled, not covered.",
   note="Trusted: the corpus reaches the relevant decode paths (valid-corpus family decodes Ok for the matching parser); release build with overflow-checks=true makes wrap-around observable as a panic."),
 "C04": dict(level="fault_enumeration", engine=WIRE, ref="6 (C04)",
   technique="deterministic simulation: chunking schedules and end-of-stream fault at every byte position over the real transport",
   text="Real write_packet output and reference-framed packets are read back by the real read_packet::<RawFrame> over a SimConn that decides every read size and Pending: all 2^11 partitions of a 12-byte three-packet stream, all partitions of an extended header, EOF/ECONNRESET at every byte position of a five-packet stream, writer/reader header agreement for every body length 0..65535 (thorough), PRNG streams and schedules. Oracle: frames byte-identical and in order, read cursor exactly at each boundary (no read-ahead), truncated stream yields an error and never a packet.",
   note="Trusted: reference APDU framing in refcodec.rs; RawFrame sees exactly the slice the transport passes to a parser."),
 "C05": dict(level="exploration", engine=WIRE, ref="6 (C05)",
   technique="deterministic simulation: seeded search over reply scripts x terminal release modes x I/O schedules against a reference model of the sequence layer",
   text="Each of the 17 real Sequence::into_stream runs against a scripted terminal: every script non-final^d final over the command's reply alphabet to depth 3 (quick) / 4 (thorough), PRNG scripts to depth 40, in lockstep (next reply only after exactly one answer), eager (everything queued: read-ahead visible on the cursor) and paced mode, under whole / one-byte / PRNG chunking, short writes and Pending. The reference model predicts, event by event, command frame, one 80 00 00 per packet written at the packet's end offset and before the item is handed over, items in order with the packet type's own decode, end right after the first final packet, cursor at its end, queued tail untouched, no I/O after the end. (The firmware upload's answer discipline is decided in C11.)",
   note="Trusted: the reply-alphabet table (DESIGN 5.2), reference codec; bounded depth."),
 "C06": dict(level="fault_enumeration", engine=WIRE, ref="6 (C06)",
   technique="deterministic simulation: single-fault enumeration at every position of every exchange, multi-fault seeded search",
   text="For every sequence and script prefix, one fault per run at every position: NACK 84xx (all 256) and foreign frames at the acknowledgement point, foreign control field / undecodable body at every reply position, EOF at every byte offset and ECONNRESET at every third, EPIPE on the command and each answer; the same under PRNG schedules and PRNG multi-fault stacks. Oracle: valid prefix, exactly one Err, then None; written bytes exactly command + one answer per valid packet (never an answer for the faulty one), no read beyond the faulty frame, no write after a failed write. 'Undecodable' is asked of the library's own parser.",
   note="Trusted: reply-alphabet table; positive acknowledgement is exactly 80 00 00."),
 "C15": dict(level="fault_enumeration", engine=WIRE, ref="6 (C15)",
   technique="deterministic simulation: exhaustive foreign-control-field fault (all 65,536) through every real reply parser",
   text="C06's foreign-control-field fault made exhaustive: all 65,536 (class, instr) pairs x 17 reply parsers x 4 body kinds (+ all 65,536 at the acknowledgement point) in the thorough tier, alphabet neighbourhoods and 2,000 PRNG pairs per parser in the quick tier, each sent as one well-framed reply through the real transport and sequence. In the reply set and decodable by its packet type -> Ok with exactly that content; everything else -> one Err, no acknowledgement.",
   note="Trusted: reply-alphabet table; the clause about inputs shorter than two bytes cannot arise on the wire and is not covered."),
 "C11": dict(level="exploration", engine=WIRE, ref="6 (C11)",
   technique="deterministic simulation: seeded search over payload directories, block sizes, request scripts and I/O schedules against a reference model reading the same files",
   text="The real WriteFile::into_stream runs over a payload directory the simulator writes per run (PRNG subset of the 21 recognised paths incl. none, unrelated files/directories, sizes around block multiples up to 200 KiB, PRNG content) against a scripted terminal whose request script covers any order, repeats, overlaps, offsets at/after end of file, unknown ids and requests lacking id / offset / container / TLV, ending in completion or abort, in lockstep/eager/paced mode under PRNG chunking and short writes. Oracle: announced list equals the recognised files present with true sizes (as a set); each request is answered by exactly one WriteData echoing id and offset with file[offset..min(offset+block,size)] byte for byte, written at the request's end offset and before the item is handed over; an invalid request yields one error and no data.",
   note="Trusted: harness copy of the path->id table; real files on tmpfs without disk faults (no seam in WriteFile); reference TLV codec."),
}

NOT_APPLICABLE = {
 "C01": "pure function value -> bytes -> value of the codec: no schedule, clock, peer, fault or history for a simulator to own; enumerating its input domain would be property-based testing under another name (DESIGN 7)",
 "C03": "pure function, both directions, against a layout table: no nondeterminism or fault in it; the reference codec only covers the ~30 packet layouts that travel on the simulated wire, as an oracle component (DESIGN 7)",
 "C12": "quantifies over programs expanded at compile time by the derive macro; nothing executes under a scheduler (DESIGN 7)",
 "C13": "pure function of the byte string (tag order / duplicates / missing tags); no simulator-owned seam is involved (DESIGN 7)",
 "C14": "pure function (suffix independence of zvt_deserialize); its stream-level analogue - nothing beyond the announced length is consumed from a connection - is decided in C04/C05 (DESIGN 7)",
 "C16": "pure bijections of length-prefix styles; the one style that meets I/O (APDU header, writer vs reader) is decided for all 65,536 lengths inside C04 (DESIGN 7)",
 "C17": "pure scalar/text/tag encodings; no schedule, time, fault or interleaving to simulate (DESIGN 7)",
}

PENDING = {k: "not claimed yet: the simulated check for this property is still being built (see DESIGN.md section 6)" for k in ["C07","C08","C09","C10","C18","C19","C20"]}  # checks not built yet

def main():
    checks = []
    for pid in sorted(CHECKS):
        c = CHECKS[pid]
        checks.append({
            "property_id": pid,
            "quick_cmd": f"./run.sh {pid} quick",
            "thorough_cmd": f"./run.sh {pid} thorough",
            "evidence_file": f"/verif/evidence/{pid}.json",
            "replay_cmd_template": "./run.sh replay {path}",
            "engine": c["engine"],
            "level_claimed": {"category": c["level"], "text": c["text"], "design_ref": "DESIGN.md section " + c["ref"]},
            "level_note": c["note"],
            "technique": c["technique"],
        })
    na = [{"property_id": k, "reason": v} for k, v in sorted({**NOT_APPLICABLE, **PENDING}.items()) if k not in CHECKS]
    m = {
        "version": 1,
        "setup_cmd": "cd /verif/sim && CARGO_NET_OFFLINE=true cargo build --release --offline",
        "hooks": {
            "guard": "cargo feature zvt_verif (crate zvt_feig_terminal)",
            "enable": "/verif/sim depends on /repo/zvt_feig_terminal by path with features=[\"zvt_verif\"]; every check runs `cargo build --release --offline` in /verif/sim first, which rebuilds /repo's working tree",
            "baseline_off_cmd": "cd /repo && cargo test --workspace --no-fail-fast --offline",
            "source_commits": [HOOK_COMMIT],
            "add_only": True,
        },
        "engines": [
            {"name": WIRE, "path": "/verif/sim", "serves_properties": [p for p in sorted(CHECKS) if CHECKS[p]["engine"] == WIRE],
             "kind_free_text": "deterministic simulation of one connection: real zvt transport/sequences/decoders over SimConn (plan-decided read sizes, Pending, short writes, EOF/reset/EPIPE) against a scripted terminal; own single-future executor with stuck detection; seeded PRNG (xoshiro256**) decides everything; failures shrunk and written as replay files"},
            {"name": CLIENT, "path": "/verif/sim", "serves_properties": [p for p in sorted(CHECKS) if CHECKS[p]["engine"] == CLIENT],
             "kind_free_text": "deterministic simulation of the terminal client: real zvt_feig_terminal::Feig and reconnecting stream on a tokio current-thread runtime with paused (discrete-event) clock, SimNet connector behind the zvt_verif hook, stateful simulated payment terminal with ledger and fault plan"},
        ],
        "checks": checks,
        "not_applicable": na,
        "notes": "Technique family: deterministic simulation with fault injection. VERIF_SEED selects the base seed (default 1); VERIF_THREADS the worker count; every violation is shrunk and written to /verif/replays/<id>-<rule>-<seed>.json and replays exactly with ./run.sh replay <file>. known_findings.json lists genuine defects (fixed ones suppress nothing).",
    }
    json.dump(m, open("/verif/MANIFEST.json", "w"), indent=1)
    print("wrote MANIFEST.json with", len(checks), "checks,", len(na), "not applicable")

if __name__ == "__main__":
    main()
