#!/bin/bash
# tools/confirm_mutant.sh <out_dir (with patch.diff, demo/)> <seeded-id> "<demo command>"
# Confirms in the scratch worktree /tmp/confirm_wt: (1) HEAD: demo passes; (2) with the patch:
# the original tests pass and the demo fails. Then copies everything to /verif/seeded/<id>/.
set -u
OUT="$1"; ID="$2"; DEMO_CMD="$3"
WT=${CONFIRM_WT:-/tmp/confirm_wt}
if [ ! -d $WT ]; then git -C /repo worktree add -q --detach $WT HEAD || exit 2; fi
cd $WT || exit 2
git checkout -q --detach $(git -C /repo rev-parse HEAD) 2>/dev/null
git checkout -q -- . ; git clean -fdq -e target
LOG=/tmp/confirm_$ID.log; : > $LOG
# demo files
if [ -d "$OUT/demo" ]; then cp -r "$OUT/demo/." $WT/; fi
echo "== HEAD: demo" >> $LOG
( eval "$DEMO_CMD" ) >> $LOG 2>&1; HEAD_DEMO=$?
if ! git apply "$OUT/patch.diff" 2>/dev/null; then
  # written against an older HEAD: three-way merge, and keep the result as the patch
  git apply -3 "$OUT/patch.diff" >/dev/null 2>&1
  if [ -n "$(git diff --name-only --diff-filter=U)" ] || git diff HEAD | grep -q '^+<<<<<<<'; then echo "patch does not apply (conflict)"; git reset -q --hard HEAD; exit 2; fi
  git reset -q; git diff HEAD -- zvt zvt_builder zvt_derive zvt_feig_terminal ':!*/tests/*' > "$OUT/patch.rebased.diff"
  [ -s "$OUT/patch.rebased.diff" ] || { echo "patch does not apply"; git reset -q --hard HEAD; exit 2; }
  cp "$OUT/patch.rebased.diff" "$OUT/patch.diff"; echo "(patch rebased onto $(git rev-parse --short HEAD))"
fi
echo "== PATCH: demo" >> $LOG
( eval "$DEMO_CMD" ) >> $LOG 2>&1; PATCH_DEMO=$?
# original suite without the demo files
git clean -fdq -e target
echo "== PATCH: original tests" >> $LOG
cargo test --workspace --offline >> $LOG 2>&1; ORIG=$?
NPASS=$(grep -E "^test result: ok" $LOG | tail -20 | awk '{s+=$4} END {print s}')
git checkout -q -- . ; git clean -fdq -e target
echo "$ID: demo@HEAD exit=$HEAD_DEMO (want 0), demo@patch exit=$PATCH_DEMO (want !=0), original tests@patch exit=$ORIG (want 0)"
if [ $HEAD_DEMO -eq 0 ] && [ $PATCH_DEMO -ne 0 ] && [ $ORIG -eq 0 ]; then
  if [ "$(realpath "$OUT")" != "$(realpath -m /verif/seeded/$ID)" ]; then
    mkdir -p /verif/seeded/$ID; cp "$OUT/patch.diff" /verif/seeded/$ID/; rm -rf /verif/seeded/$ID/demo; [ -d "$OUT/demo" ] && cp -r "$OUT/demo" /verif/seeded/$ID/demo
  fi
  [ -f "$OUT/README.md" ] && cp "$OUT/README.md" /verif/seeded/$ID/README.md
  echo "CONFIRMED -> /verif/seeded/$ID"
else
  echo "NOT CONFIRMED (see $LOG)"; exit 1
fi
