#!/usr/bin/env python3
"""tools/update_seeded_meta.py <results-file>: writes final_result / detected into every seeded/<id>/meta.json
from a results file with lines '<id>: <PROP> exit=<n> rule=...' (output of run_seeded_iso.sh / run_seeded.sh)."""
import json, re, sys, os
res = {}
for l in open(sys.argv[1]):
    m = re.match(r'(C\d\d-[a-z0-9]+): (.*)', l.strip())
    if m:
        res[m.group(1)] = m.group(2).strip()
n = 0
for id, r in sorted(res.items()):
    p = f'/verif/seeded/{id}/meta.json'
    if not os.path.exists(p):
        continue
    d = json.load(open(p))
    d['final_result'] = r[:400]
    d['detected'] = 'exit=1' in r
    json.dump(d, open(p, 'w'), indent=1)
    n += 1
print("updated", n, "missed:", [i for i, r in res.items() if 'exit=1' not in r])
