#!/bin/bash
# tools/intake_round.sh <round-tag e.g. r3> <out-dir-prefix e.g. /tmp/w3_> [ids...]
# For every <prefix><Cxx>_out/m<i>: confirm (demo passes at HEAD, fails with the patch, original
# suite passes with the patch), keep as /verif/seeded/<Cxx>-<tag>m<i>, then run the property's
# quick check against it.
TAG="$1"; PRE="$2"; shift 2
IDS="${@:-C02 C04 C05 C06 C07 C08 C09 C10 C11 C15 C18 C19 C20}"
for c in $IDS; do
  for d in ${PRE}${c}_out/m*/; do
    [ -d "$d" ] || continue
    i=$(basename $d); id="$c-${TAG}$i"
    R=$(/verif/tools/confirm_auto.sh "$d" "$id" 2>&1 | tail -2 | tr '\n' ' ')
    echo "$id: $R"
    case "$R" in *CONFIRMED\ -\>*) ;; *) continue;; esac
    D=$(/verif/tools/try_patch.sh /verif/seeded/$id/patch.diff quick $c | cut -c1-260)
    echo "   -> $D"
  done
done
