#!/bin/bash
# tools/intake_round.sh <round-tag e.g. r4> <out-dir-prefix e.g. /tmp/w4_> [ids...]
# For every <prefix><Cxx>_out/m<i>: confirm (demo passes at HEAD, fails with the patch, original
# suite passes with the patch), keep as /verif/seeded/<Cxx>-<tag>m<i>, then run the property's
# quick check against it on an isolated copy of /repo (tools/iso.sh). Four properties in parallel.
TAG="$1"; PRE="$2"; shift 2
IDS="${@:-C02 C04 C05 C06 C07 C08 C09 C10 C11 C15 C18 C19 C20}"
one() {
  c=$1; k=$2
  for d in ${PRE}${c}_out/m*/; do
    [ -d "$d" ] || continue
    i=$(basename $d); id="$c-${TAG}$i"
    R=$(CONFIRM_WT=/tmp/confirm_wt_$k /verif/tools/confirm_auto.sh "$d" "$id" 2>&1 | tail -2 | tr '\n' ' ')
    echo "$id: $R"
    case "$R" in *CONFIRMED\ -\>*) ;; *) continue;; esac
    D=$(/verif/tools/iso.sh intake$k /verif/seeded/$id/patch.diff quick $c | cut -c1-260)
    echo "$id   -> $D"
  done
}
k=0
for c in $IDS; do
  k=$((k+1))
  one $c $((k % 4)) > /dev/shm/intake_$c.txt 2>&1 &
  if [ $((k % 4)) -eq 0 ]; then wait; fi
done
wait
for c in $IDS; do cat /dev/shm/intake_$c.txt; done
