#!/bin/bash
# tools/run_seeded_iso.sh [tier] [slots] [id-glob]: every seeded change against the check of its property,
# in parallel on isolated copies of /repo with the committed harness (tools/iso.sh). Expect exit=1 everywhere.
TIER="${1:-quick}"; SLOTS="${2:-4}"; GLOB="${3:-*}"
ls -d /verif/seeded/$GLOB/ > /dev/shm/seeded_list.txt
run_slot() {
  s=$1
  awk -v s=$s -v n=$SLOTS 'NR % n == s % n' /dev/shm/seeded_list.txt | while read d; do
    id=$(basename $d); prop=${id%%-*}
    R=$(VERIF_THREADS=${VERIF_THREADS:-5} ISO_SIM=head /verif/tools/iso.sh seed$s ${d}patch.diff $TIER $prop 2>&1 | cut -c1-220 | tr '\n' ' ')
    echo "$id: $R"
  done
}
for s in $(seq 1 $SLOTS); do run_slot $s > /dev/shm/seeded_out_$s.txt 2>&1 & done
wait
cat /dev/shm/seeded_out_*.txt | sort
echo "missed: $(cat /dev/shm/seeded_out_*.txt | grep -vc 'exit=1')"
