#!/bin/bash
# tools/run_seeded.sh [tier] [id-glob]: runs every seeded change in /verif/seeded against the check
# of its property (applies to /repo, runs, reverts). Expect exit=1 everywhere.
TIER="${1:-quick}"; GLOB="${2:-*}"
MISS=0
for d in /verif/seeded/$GLOB/; do
  id=$(basename $d); prop=${id%%-*}
  R=$(/verif/tools/try_patch.sh ${d}patch.diff $TIER $prop | cut -c1-200)
  echo "$id: $R"
  case "$R" in *"exit=1"*) ;; *) MISS=$((MISS+1));; esac
done
echo "missed: $MISS"
