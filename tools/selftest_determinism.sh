#!/bin/bash
# Determinism proof: every check's whole quick batch is executed in separate
# processes with 1, 5 and 16 worker threads (and once more with 16); the batch
# hash (XOR over all runs of mix(run index, event-log hash)), the number of
# runs, distinct shapes and states must be identical. Repeated for a second seed.
# usage: tools/selftest_determinism.sh [ID...]
set -u
cd /verif/sim && cargo build --release --offline >/dev/null 2>&1 || { echo "build failed"; exit 2; }
BIN=/verif/sim/target/release/zvt-sim
IDS="${*:-C02 C04 C05 C06 C07 C08 C09 C10 C11 C15 C18 C19 C20}"
FAIL=0
TMP=$(mktemp -d /dev/shm/zvt-det.XXXXXX)
for SEED in 1 20261004; do
  for ID in $IDS; do
    REF=""
    for T in 16 1 5 16; do
      # evidence goes to a scratch VERIF_DIR so that the committed evidence is untouched
      mkdir -p $TMP/v; cp /verif/known_findings.json $TMP/v/ 2>/dev/null
      LINE=$(VERIF_DIR=$TMP/v VERIF_SEED=$SEED VERIF_THREADS=$T $BIN check $ID --tier quick 2>/dev/null | tail -1 | sed -E 's/, [0-9.]+s,/,/')
      if [ -z "$REF" ]; then REF="$LINE"; fi
      if [ "$LINE" != "$REF" ]; then echo "NONDETERMINISTIC seed=$SEED threads=$T"; echo "  ref: $REF"; echo "  got: $LINE"; FAIL=1; fi
    done
    echo "seed=$SEED $REF"
  done
done
rm -rf $TMP
exit $FAIL
