#!/bin/bash
# tools/confirm_auto.sh <out_dir> <seeded-id>: derives the demo command from demo/<crate>/tests/<name>.rs
OUT="$1"; ID="$2"
CMD=""
[ -f "$OUT/demo/devdep.diff" ] && CMD="git apply devdep.diff 2>/dev/null; "
PARTS=""
for f in $(cd "$OUT/demo" 2>/dev/null && find . -regex '\./[^/]+/tests/[^/]+\.rs' | sort); do
  crate=$(echo "$f" | cut -d/ -f2); name=$(basename "$f" .rs)
  FEAT=""; [ "$crate" = "zvt_feig_terminal" ] && FEAT="--features zvt_verif"
  [ -n "$PARTS" ] && PARTS="$PARTS && "
  PARTS="${PARTS}cargo test -p $crate $FEAT --offline --test $name"
done
if [ -z "$PARTS" ]; then echo "$ID: no demo test file found under $OUT/demo"; exit 2; fi
exec /verif/tools/confirm_mutant.sh "$OUT" "$ID" "${CMD}${PARTS}"
