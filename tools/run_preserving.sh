#!/bin/bash
# tools/run_preserving.sh [tier]: applies each property-preserving edit in /verif/preserving to /repo,
# runs ALL checks and expects exit 0 everywhere (no false alarm), then reverts.
TIER="${1:-quick}"
ALARMS=0
for p in /verif/preserving/*.diff; do
  R=$(/verif/tools/try_patch.sh $p $TIER C02 C04 C05 C06 C07 C08 C09 C10 C11 C15 C18 C19 C20)
  BAD=$(echo "$R" | grep -v "exit=0")
  if [ -n "$BAD" ]; then echo "$(basename $p): FALSE ALARM"; echo "$BAD" | cut -c1-300; ALARMS=$((ALARMS+1)); else echo "$(basename $p): all 13 checks exit 0"; fi
done
echo "false alarms: $ALARMS"
